"""C09 — the Laplace transform returned for a signal equals its defining integral.

  translate   lcapy/laplace.py (+ transformer.py, utils.py) -> Gen/LaplaceGen.v        (tools/tr_laplace.py)
  prove       props/C09_entry_*.v  table_entry_<k>: translated closed form = specification entry (LPair)
              props/C09.v          gen_forms_ok, term_sound_gen, integral_returns_gen, conv_exp_named_gen, doit_sound_gen, L_linear,
                                   cache_transparent,
                                   analysis: table entries = the defining integral (LaplaceAnalysis.v)
  correspond  generated expressions of the supported class: real `x(s)` (tools/impl_laplace.py) vs the model
              `doit` of coq/theory/LaplaceModel.v, evaluated by vm_compute inside Coq over Q(i)
              (values at integer points s0 with exact characters for exp/sin/cos; dispatch events)
  search      mpmath quadrature of the defining integral (break points at the discontinuities, impulses
              added analytically) at 3 real + 2 complex s in the region of convergence
"""
import json
import os
import random
import re
import sys
import time
if hasattr(sys, 'set_int_max_str_digits'):
    sys.set_int_max_str_digits(0)
from fractions import Fraction

sys.path.insert(0, os.path.dirname(os.path.dirname(os.path.abspath(__file__))))
from vlib import core
sys.path.insert(0, os.path.join(core.VERIF, 'tools'))
import tr_laplace as T

PID = 'C09'
MANIFEST = {
    'text': 'Coq: (analysis, Coquelicot) the table entries t^n e^{pt}, damped sin/cos with phase, rect/tri/ramp/rampstep(at), '
            'delays and every real exp-poly signal have the stated transform as their improper integral from 0 for real s in '
            'the region of convergence; (algebra, any characteristic-0 field with abstract exp/sin/cos) the closed forms '
            'translated from lcapy/laplace.py on every run (incl. the sifting branch delta*v and clip_heaviside) equal the specification entries of the inductive relation LPair '
            '(table + linearity, delay, exponential weighting, time scaling, derivative with 0- values, integral, convolution), '
            'and the hand model of LaplaceTransformer.term / UnilateralForwardTransformer.doit is sound for LPair, linear and '
            'cache-transparent; all three returns of LaplaceTransformer.integral are modelled (running integral written with the integration '
            'variable, written as int_0^oo v(t - tau) dtau, convolution of two named functions and of exp(a t) with a named function; constants '
            'inside the integral), its whole body is pinned by the translator; integral_returns_gen proves both running-integral forms '
            'return c V(s)/s and conv_exp_named_gen that exp(a tau) * v(t - tau) returns c V(s)/(s - a), each the LPair transform; polynomial factors (sums inside products, distributed by expand) are inside the model.  For products of real '
            'classical factors the denotation is proved to be the pointwise product of the factor functions on t > 0, so the value '
            'the model assigns is the defining integral of that very function (classical_term_is_integral).  The model is tied to the code by evaluating it inside Coq on generated expressions against '
            'what Lcapy returned (values and dispatch events).',
    'note': 'partial: complex s and impulse entries are specification-level (no distribution theory / complex improper '
            'integrals for Coq 8.16); sympy.integrate (fall-through branch) is an oracle validated per case, not proved - but its contract '
            'value is proved to be the integral of the denoted function for real classical products; products with sin/cos (complex poles) and '
            'impulses keep the algebraic denotation. '
            'Trusted: Coq kernel/vm_compute, tools/tr_laplace.py, the reifier and exact evaluator in tools/impl_laplace.py, '
            'specification coq/theory/LaplaceSig.v; standard-library real-number axioms (listed in the evidence).',
    'technique': 'Coq proof (Coquelicot analysis + field identities over a model translated from source + hand model soundness) '
                 '+ in-Coq correspondence evaluation + quadrature search oracle',
}

# ------------------------------------------------------------------------------------------ generator
RATES = ['1/2', '1', '3/2', '2', '3']
FREQS = ['1', '2', '3', '1/2']
PHASES = ['1/2', '1', '-1/2', '2', '-1']
DELAYS = ['1/2', '1', '3/2', '2', '3']
SCALES = ['2', '3', '1/2', '1/3', '3/2']
COEFS = ['2', '3', '5', '-1', '1/2', '-3/2', '7/3', '-2']
SYMS = ['a', 'b', 'c']


def fr(x):
    return Fraction(x)


def pstr(x):
    """a Fraction as lcapy source text"""
    x = Fraction(x)
    if x.denominator == 1:
        return str(x.numerator) if x >= 0 else '(%d)' % x.numerator
    return '(%d/%d)' % (x.numerator, x.denominator)


def lin(a, b, var='t'):
    a, b = Fraction(a), Fraction(b)
    s = var if a == 1 else ('-' + var if a == -1 else '%s*%s' % (pstr(a), var))
    if b > 0:
        s += ' + %s' % pstr(b)
    elif b < 0:
        s += ' - %s' % pstr(-b)
    return s


class Gen:
    def __init__(self, rng):
        self.rng = rng

    def ch(self, l):
        return self.rng.choice(l)

    def expf(self):
        return 'exp(-%s*t)' % self.ch(RATES)

    def trig(self, phase=True):
        f = self.ch(['sin', 'cos'])
        w = self.ch(FREQS)
        p = self.ch(PHASES) if phase and self.rng.random() < 0.6 else '0'
        return '%s(%s)' % (f, lin(w, p))

    def step(self):
        return 'u(%s)' % lin(1, -fr(self.ch(DELAYS)))

    def powt(self):
        n = self.ch([1, 1, 2, 3])
        return 't' if n == 1 else 't**%d' % n

    # --- classes; each returns (kind, text)
    def k_polyexp(self):
        fs = []
        if self.rng.random() < 0.7:
            fs.append(self.powt())
        if self.rng.random() < 0.8 or not fs:
            fs.append(self.expf())
        if self.rng.random() < 0.2:
            fs.append('u(t)')
        return 'polyexp', '*'.join(fs)

    def k_sincos(self):
        fs = []
        if self.rng.random() < 0.6:
            fs.append(self.expf() if self.rng.random() < 0.8 else 'exp(%s)' % lin(-fr(self.ch(RATES)), self.ch(['1', '1/2'])))
        fs.append(self.trig())
        r = self.rng.random()
        if r < 0.45:
            fs.append(self.step())
        elif r < 0.55:
            fs.append('u(t)')
        self.rng.shuffle(fs)
        return 'sincos', '*'.join(fs)

    def k_product(self):
        r = self.rng.random()
        if r < 0.2:
            return 'product', '%s*%s' % (self.powt(), self.trig(False))
        if r < 0.35:
            return 'product', '%s*%s*%s' % (self.ch(['t', 't**2']), self.expf(), self.trig(False))
        if r < 0.55:
            return 'product', '%s*%s' % (self.expf(), self.step())
        if r < 0.7:
            return 'product', '%s*%s' % (self.powt(), self.step())
        if r < 0.85:
            return 'product', '%s*%s*%s' % (self.powt(), self.expf(), self.step())
        if r < 0.93:
            return 'product', '%s*%s' % (self.step(), self.step())
        return 'product', 'exp(%s)' % lin(-fr(self.ch(RATES)), self.ch(['1', '-1', '1/2']))

    def k_hyp(self):
        f = self.ch(['sinh', 'cosh'])
        a = '%s(%s)' % (f, lin(self.ch(['1', '2', '1/2']), self.ch(['0', '0', '1/2'])))
        r = self.rng.random()
        if r < 0.3:
            return 'hyp', a
        if r < 0.5:
            return 'hyp', '%s*%s' % (a, self.ch(['t', 't**2']))
        if r < 0.75:
            return 'hyp', '%s*%s' % (a, self.expf())
        return 'hyp', '%s*%s' % (a, self.step())

    def k_impulse(self):
        tau = fr(self.ch(['0'] + DELAYS))
        arg = lin(1, -tau)
        r = self.rng.random()
        if r < 0.3:
            return 'impulse', 'delta(%s)' % arg
        if r < 0.5:
            k = self.ch([1, 1, 2])
            return 'impulse', 'diff(delta(%s), t%s)' % (arg, '' if k == 1 else ', %d' % k)
        if r < 0.9:
            g = self.ch([self.powt(), self.expf(), self.trig(), self.expf() + '*' + self.powt()])
            d = 'delta(%s)' % arg if self.rng.random() < 0.7 else 'diff(delta(%s), t)' % arg
            return 'impulse', '%s*%s' % (g, d)
        a = self.ch(['2', '3', '1/2'])
        return 'impulse_scaled', 'delta(%s)' % lin(a, -fr(self.ch(DELAYS)))

    def k_special(self):
        f = self.ch(['rect', 'tri', 'ramp', 'rampstep'])
        r = self.rng.random()
        if r < 0.45:
            a = self.ch(['1'] + SCALES)
            return 'special_scale', '%s(%s)' % (f, lin(a, 0))
        a = fr(self.ch(['1', '1', '2', '1/2']))
        if r < 0.8:
            # support entirely in t >= 0
            b = -a * fr(self.ch(['1', '3/2', '2', '3']))
            if f in ('rect',):
                b -= Fraction(1, 2)
            if f in ('tri',):
                b -= 1
            return 'special_delay', '%s(%s)' % (f, lin(a, b))
        # support starts before 0 (advance)
        b = fr(self.ch(['1/4', '1/2', '1', '3/4']))
        if self.rng.random() < 0.4:
            b = -b if f in ('rect', 'tri') and b < (Fraction(1, 2) if f == 'rect' else 1) else b
        return 'special_straddle', '%s(%s)' % (f, lin(a, b))

    def k_named(self):
        r = self.rng.random()
        v = self.ch(['v', 'x', 'y'])
        if r < 0.12:
            return 'named', '%s(t)' % v
        if r < 0.3:
            return 'named', '%s(%s)' % (v, lin(1, -fr(self.ch(DELAYS))))
        if r < 0.42:
            return 'named', '%s(%s)' % (v, lin(self.ch(SCALES), 0))
        if r < 0.55:
            return 'named', '%s(%s)' % (v, lin(self.ch(SCALES), -fr(self.ch(DELAYS))))
        if r < 0.68:
            arg = lin(1, -fr(self.ch(['0'] + DELAYS)))
            fs = ['%s(%s)' % (v, arg), self.expf()]
            self.rng.shuffle(fs)
            return 'named', '*'.join(fs)
        if r < 0.8:
            k = self.ch([1, 1, 2, 3])
            return 'named_deriv', 'diff(%s(t), t%s)' % (v, '' if k == 1 else ', %d' % k)
        # a constant inside the integral is const2 of LaplaceTransformer.integral
        k2 = self.ch(['', '', '3*', '(1/2)*', '(-2)*', 'a*'])
        if r < 0.9:
            if self.rng.random() < 0.35:
                # first return of integral(): the running integral written as int_0^oo v(t - tau) dtau
                return 'named_integA', 'integrate(%s%s(t - tau), (tau, 0, oo))' % (k2, v)
            lo = self.ch(['0', '-oo', '-1', '-3/2'])
            return 'named_integ', 'integrate(%s%s(tau), (tau, %s, t))' % (k2, v, lo)
        if self.rng.random() < 0.4:
            # convolution of the classical signal exp(-r t) (t >= 0) with a named function (lower limit 0)
            fs = ['exp(-%s*tau)' % self.ch(RATES + ['a']), '%s(t - tau)' % v]
            self.rng.shuffle(fs)
            return 'named_conve', 'integrate(%s%s*%s, (tau, 0, %s))' % (k2, fs[0], fs[1], self.ch(['t', 't', 'oo']))
        h = 'h'
        form = self.ch(['integrate(%s%s(tau)*%s(t - tau), (tau, 0, t))', 'integrate(%s%s(t - tau)*%s(tau), (tau, -oo, oo))',
                        'integrate(%s%s(tau)*%s(t - tau), (tau, -oo, t))'])
        return 'named_conv', form % (k2, v, h)

    def k_sift(self):
        v = self.ch(['v', 'x', 'y'])
        r = self.rng.random()
        tau = fr(self.ch(['0'] + DELAYS))
        if r < 0.5:
            return 'sift', '%s(t)*delta(%s)' % (v, lin(1, -tau))
        if r < 0.75:
            return 'sift', '%s(t)*delta(%s)' % (v, lin(self.ch(['2', '3', '1/2']), -fr(self.ch(DELAYS))))
        return 'sift', '%s(%s)*delta(%s)' % (v, lin(self.ch(['2', '1/2']), -fr(self.ch(['0', '1', '1/2']))), lin(1, -fr(self.ch(DELAYS))))

    def k_polyfac(self):
        # a polynomial factor (a sum inside a product)
        c0 = self.ch(['1', '2', '-1', '1/2', '3', 'a'])
        c1 = self.ch(['1', '2', '-1', '3/2', 'b'])
        r = self.rng.random()
        if r < 0.25:
            p = '(t**2 + %s)' % c0
        else:
            p = '(%s*t + %s)' % (c1, c0)
        r = self.rng.random()
        if r < 0.25:
            rest = self.expf()
        elif r < 0.45:
            rest = self.trig()
        elif r < 0.6:
            rest = self.step()
        elif r < 0.72:
            rest = '%s*%s' % (self.expf(), self.step())
        elif r < 0.84:
            rest = 'delta(%s)' % lin(1, -fr(self.ch(['0'] + DELAYS)))
        elif r < 0.92:
            rest = 't*%s' % self.expf()
        else:
            rest = '%s*%s' % (self.expf(), self.trig(False))
        return 'polyfac', '%s*%s' % (p, rest)

    def k_cexp(self):
        a = self.ch(['-1', '-2', '-1/2'])
        w = self.ch(['1', '2', '3'])
        sg = self.ch(['+', '-'])
        return 'cexp', 'exp((%s %s %s*j)*t)' % (a, sg, w)

    def k_sc3(self):
        # three factors starting with sin/cos and no exponential
        r = self.rng.random()
        if r < 0.5:
            return 'sincos3', '%s*%s*%s' % (self.trig(False), self.step(), self.step())
        return 'sincos3', '%s*%s*%s' % (self.trig(False), self.trig(False), self.step())

    def atom(self):
        r = self.rng.random()
        for p, f in ((0.14, self.k_polyexp), (0.36, self.k_sincos), (0.5, self.k_product), (0.58, self.k_hyp),
                     (0.69, self.k_impulse), (0.79, self.k_special), (0.88, self.k_named), (0.91, self.k_sift), (0.97, self.k_polyfac), (0.985, self.k_cexp),
                     (1.01, self.k_sc3)):
            if r < p:
                return f()

    def coef(self):
        r = self.rng.random()
        if r < 0.45:
            return None
        if r < 0.8:
            return pstr(fr(self.ch(COEFS)))
        return self.ch(SYMS)

    def expression(self):
        n = self.ch([1, 1, 1, 2, 2, 3])
        kinds, parts = [], []
        for _ in range(n):
            k, txt = self.atom()
            c = self.coef()
            kinds.append(k)
            parts.append(txt if c is None else '%s*%s' % (c, txt))
        self.last_parts = parts
        return kinds, ' + '.join(parts)


DS = [24, 144]


def make_points(rng, npts=2):
    pts = []
    for s0 in rng.sample([5, 7, 11, 13], npts):
        syms = {n: '%d/%d' % (rng.choice([2, 3, 5, 7]), rng.choice([1, 2])) for n in SYMS}
        pts.append({'s0': s0, 'Ds': DS, 'syms': syms})
    return pts


# ------------------------------------------------------------------------------------------ Coq case files
def kq(js):
    a, b = Fraction(js[0]), Fraction(js[1])
    return '(qi (%d) %d (%d) %d)' % (a.numerator, a.denominator, b.numerator, b.denominator)


LEAF = {'exp': 'LExp', 'sin': 'LSin', 'cos': 'LCos', 'sinh': 'LSinh', 'cosh': 'LCosh', 'u': 'LU',
        'rect': 'LRect', 'tri': 'LTri', 'ramp': 'LRamp', 'rstep': 'LRstep'}


def leaf_coq(f):
    t = f[0]
    if t == 'powt':
        return '(P %d)' % f[1]
    if t == 'poly':
        return '(LPoly (K:=QcIF) [%s])' % '; '.join(kq(c) for c in f[1])
    if t in LEAF:
        return '(%s (K:=QcIF) %s %s)' % (LEAF[t], kq(f[1]), kq(f[2]))
    if t == 'delta':
        return '(LDelta (K:=QcIF) %d %s %s)' % (f[1], kq(f[2]), kq(f[3]))
    if t == 'undef':
        return '(LUndef (K:=QcIF) %d %s %s)' % (f[1], kq(f[2]), kq(f[3]))
    if t == 'deriv':
        return '(LDeriv (K:=QcIF) %d %d)' % (f[1], f[2])
    if t == 'integ':
        return '(LInteg (K:=QcIF) %d)' % f[1]
    if t == 'integA':
        return '(LIntegA (K:=QcIF) %d)' % f[1]
    if t == 'conv':
        return '(LConv (K:=QcIF) %d %d)' % (f[1], f[2])
    if t == 'conve':
        return '(LConvE (K:=QcIF) %s %d %s)' % (kq(f[1]), f[2], 'true' if f[3] else 'false')
    raise ValueError(t)


def tx_coq(ast):
    return '[' + '; '.join('(%s, [%s])' % (kq(m['c']), '; '.join(leaf_coq(f) for f in m['fs'])) for m in ast) + ']'


FALLBACK_GEN = '''(* fallback when lcapy/laplace.py cannot be translated: the specification forms stand in for the generated ones, so
   that the correspondence cases still compare the real code with the specification *)
Require Import LT.FieldSec LT.PolyQ LT.ExpPoly LT.LaplaceSig LT.LaplaceModel.
Definition gen_forms (K : fld) (V : lenv K) : forms K :=
  spec_forms K (l_ex K V) (l_sn K V) (l_cs K V) (l_neg K V) (l_Fn K V) (l_Ic K V).
'''
CASES_HEAD = '''(* GENERATED correspondence cases for C09 (checks/c09.py). *)
Require Import LT.FieldSec LT.QcI LT.PolyQ LT.ExpPoly LT.LaplaceSig LT.LaplaceModel LT.LaplaceExec Gen.LaplaceGen.
From Coq Require Import QArith Qcanon.
Definition P (n : nat) : leaf QcIF := LPowT n.
Definition rc (D : positive) := run_case (gen_forms QcIF (xenv D)) D.
'''


def cases_v(items):
    """items: (index, D, zic, ast, s0, want_js, events, check_events)"""
    lines = [CASES_HEAD, 'Definition cases : list (nat * nat) := [']
    body = []
    for idx, D, zic, ast, s0, want, evs, chk in items:
        strict = any(f[0] == 'delta' and Fraction(f[3][0]) == 0 for m in ast for f in m['fs'])
        body.append('(%d%%nat, rc %d %s %s (qi %d 1 0 1) %s [%s] %s %s)' % (
            idx, D, 'true' if zic else 'false', tx_coq(ast), s0, kq(want),
            '; '.join('%d%%nat' % e for e in evs), 'true' if chk else 'false', 'true' if strict else 'false'))
    lines.append(';\n'.join(body))
    lines.append('].\nDefinition failing := filter (fun p => negb (Nat.eqb (snd p) 0)) cases.\nEval vm_compute in failing.\n')
    return '\n'.join(lines)


def parse_failing(out):
    m = re.search(r'=\s*\[(.*?)\]\s*:\s*list \(nat \* nat\)', out, re.S)
    if not m:
        return None
    body = m.group(1).strip()
    if not body:
        return []
    return [(int(a), int(b)) for a, b in re.findall(r'\((\d+)(?:%nat)?\s*,\s*(\d+)(?:%nat)?\)', body)]



# ------------------------------------------------------------------------------------------ classification
SPECIAL = ('rect', 'tri', 'ramp', 'rstep')


def mono_signature(m):
    fs = [f for f in m['fs'] if not (f[0] == 'u' and Fraction(f[1][0]) == 1 and Fraction(f[2][0]) == 0)]
    return '*'.join(f[0] for f in fs) or '1'


def support_start(f):
    a, b = Fraction(f[1][0]), Fraction(f[2][0])
    off = {'rect': Fraction(1, 2), 'tri': Fraction(1), 'ramp': Fraction(0), 'rstep': Fraction(0)}[f[0]]
    return (-b - off) / a


def classify(ast):
    """stable fingerprint of a (minimised, single-term) failing input"""
    if len(ast) != 1:
        return 'value:' + '+'.join(sorted(mono_signature(m) for m in ast))
    m = ast[0]
    fs = [f for f in m['fs'] if not (f[0] == 'u' and Fraction(f[1][0]) == 1 and Fraction(f[2][0]) == 0)]
    tags = [f[0] for f in fs]
    if len(fs) == 1 and tags[0] in SPECIAL:
        f = fs[0]
        b = Fraction(f[2][0])
        if b == 0:
            return 'LaplaceTransformer.function:%s:scale' % {'rstep': 'rampstep'}.get(tags[0], tags[0])
        if support_start(f) < 0:
            return 'shifted-%s:support-starts-before-0' % {'rstep': 'rampstep'}.get(tags[0], tags[0])
    if len(fs) == 3 and tags[0] in ('sin', 'cos') and 'exp' not in tags:
        return 'LaplaceTransformer.sin_cos:three-factors-without-exp'
    if 'delta' in tags and 'undef' in tags:
        if any(f[0] == 'delta' and f[1] >= 1 for f in fs):
            return 'term:DiracDelta-derivative*undefined-function'
        return 'term:DiracDelta*undefined-function'
    for f in fs:
        if f[0] == 'delta' and f[1] >= 1 and Fraction(f[2][0]) != 1:
            return 'DiracDelta-derivative:scaled-argument'
    return 'value:' + mono_signature(m)


OBLIGATION_KEYS = {
    'table_entry_tri': ['LaplaceTransformer.function:tri:scale'],
    'tri_closed_form_is_integral': ['LaplaceTransformer.function:tri:scale'],
    'table_entry_rstep': ['LaplaceTransformer.function:rampstep:scale'],
    'rstep_closed_form_is_integral': ['LaplaceTransformer.function:rampstep:scale'],
    'table_entry_rect': ['LaplaceTransformer.function:rect:scale'],
    'rect_closed_form_is_integral': ['LaplaceTransformer.function:rect:scale'],
    'table_entry_ramp': ['LaplaceTransformer.function:ramp:scale'],
    'ramp_closed_form_is_integral': ['LaplaceTransformer.function:ramp:scale'],
    'table_entry_sc_guard': ['LaplaceTransformer.sin_cos:three-factors-without-exp'],
    'table_entry_sift': ['term:DiracDelta*undefined-function'],
}
def explains(name, key):
    """does the concrete failing input with fingerprint `key` account for the broken obligation `name`?"""
    if key in OBLIGATION_KEYS.get(name, []):
        return True
    if not key.startswith('value:'):
        return False
    fs = set(key[len('value:'):].split('*'))
    if name in ('table_entry_sincos', 'sincos_closed_form_is_integral'):
        return bool(fs & {'sin', 'cos'}) and fs <= {'exp', 'sin', 'cos', 'u'}
    if name == 'table_entry_func':
        return 'undef' in fs and fs <= {'undef', 'exp'}
    if name == 'table_entry_deriv':
        return fs == {'deriv'}
    if name in ('table_entry_integ', 'integral_returns_gen'):
        return bool(fs) and fs <= {'integ', 'integA'}
    if name in ('table_entry_conv', 'conv_exp_named_gen'):
        return bool(fs) and fs <= {'conv', 'conve'}
    if name == 'table_entry_const':
        return fs == {'1'}
    if name == 'table_entry_exp':
        return fs == {'exp'} or fs == {'conve'}
    return False


# files whose statements need other files
DEPENDS = {
    'C09_int_sincos.v': ['C09_entry_sincos.v'], 'C09_int_rect.v': ['C09_entry_rect.v'], 'C09_int_tri.v': ['C09_entry_tri.v'],
    'C09_int_rstep.v': ['C09_entry_rstep.v'], 'C09_int_ramp.v': ['C09_entry_ramp.v'],
    'C09.v': ['C09_entry_basic.v', 'C09_entry_sincos.v', 'C09_entry_guard.v', 'C09_entry_rect.v', 'C09_entry_tri.v',
              'C09_entry_ramp.v', 'C09_entry_rstep.v'],
}
PHASE2 = ['C09_entry_basic.v', 'C09_entry_sincos.v', 'C09_entry_guard.v', 'C09_entry_rect.v', 'C09_entry_tri.v',
          'C09_entry_ramp.v', 'C09_entry_rstep.v', 'C09_analysis.v']
PHASE3 = ['C09_int_sincos.v', 'C09_int_rect.v', 'C09_int_tri.v', 'C09_int_rstep.v', 'C09_int_ramp.v', 'C09.v']


def targeted_cases(rng, names):
    """inputs around the closed forms whose obligations broke (or all of them when the translation broke)"""
    g = Gen(rng)
    out = []
    allf = any(n in ('translate', 'LaplaceGen') or n.startswith('gate') for n in names)

    def add(kind, text):
        out.append({'expr': text, 'zic': False, 'kinds': [kind], 'points': make_points(rng, 1), 'oracle': True, 'targeted': True})
    for n in names:
        for fn, tag in (('tri', 'tri'), ('rstep', 'rampstep'), ('rect', 'rect'), ('ramp', 'ramp')):
            if allf or fn in n.split('_'):
                for a in ('2', '1/2'):
                    add('special_scale', '%s(%s)' % (tag, lin(a, 0)))
        if allf or 'guard' in n or 'sincos' in n:
            for _ in range(2):
                add(*g.k_sc3())
            for _ in range(3):
                add(*g.k_sincos())
        if allf or any(x in n for x in ('func', 'deriv', 'integ', 'conv', 'basic')):
            for _ in range(3):
                add(*g.k_named())
        if allf or 'sift' in n:
            for _ in range(3):
                add(*g.k_sift())
        if allf or any(x in n for x in ('const', 'exp', 'basic')):
            for _ in range(3):
                add(*g.k_polyexp())
        if allf:
            break
    # de-duplicate
    seen, res = set(), []
    for c in out:
        if c['expr'] not in seen:
            seen.add(c['expr'])
            res.append(c)
    return res


def history_cases(rng):
    """the same expression transformed with different options / constants through one cache"""
    out = []
    for v, k in (('v', 1), ('x', 2)):
        d = 'diff(%s(t), t%s)' % (v, '' if k == 1 else ', %d' % k)
        out.append({'expr': '3*' + d, 'zic': False, 'pre': [[d, True]], 'kinds': ['history'], 'points': make_points(rng), 'oracle': False})
        out.append({'expr': d, 'zic': True, 'pre': [['5*' + d, False], [d, False]], 'kinds': ['history'], 'points': make_points(rng), 'oracle': False})
    out.append({'expr': '2*t*exp(-3*t)', 'zic': False, 'pre': [['t*exp(-3*t)', False], ['7*t*exp(-3*t)', True]], 'kinds': ['history'],
                'points': make_points(rng), 'oracle': True})
    out.append({'expr': 'cos(2*t)*u(t - 1)', 'zic': True, 'pre': [['cos(2*t)', False], ['cos(2*t)*u(t - 1)', False]], 'kinds': ['history'],
                'points': make_points(rng), 'oracle': True})
    return out


# ------------------------------------------------------------------------------------------ main
def run(tier='quick', replay=None):
    res = core.Result(PID, tier)
    rng = random.Random(core.seed() * 104729 + 9)
    core.ensure_theory(['FieldSec', 'PolyQ', 'ExpPoly', 'QcI', 'LaplaceSig', 'LaplaceModel', 'LaplaceExec',
                        'LaplaceAnalysis', 'LaplaceLink', 'LaplacePointwise', 'LaplaceDen'])
    w = core.Work(PID)
    violations = []
    try:
        res.trusted = [
            'Coq 8.16.1 kernel + vm_compute (no native_compute); Coquelicot 3.x',
            'translator tools/tr_laplace.py (sha256 %s): arithmetic of the closed forms is translated, the factor-parsing statements '
            'and the branch order of term/doit/remove_heaviside/key are pinned verbatim' % core.sha256_file(os.path.join(core.VERIF, 'tools', 'tr_laplace.py'))[:16],
            'worker tools/impl_laplace.py (sha256 %s): reifier (sympy expression -> model AST, as_ordered_factors order), exact evaluator of '
            "Lcapy's result with the characters of coq/theory/LaplaceExec.v, run-time method wrappers for the dispatch trace"
            % core.sha256_file(os.path.join(core.VERIF, 'tools', 'impl_laplace.py'))[:16],
            'specification coq/theory/LaplaceSig.v (signal, LPair, normal forms and their product/shift/sampling algebra) and the '
            'denotation den/den_mono of coq/theory/LaplaceModel.v (sinh/cosh/sin/cos defined by exponentials)',
            'oracles modelled, not verified: sympy.integrate + limit (integrate_0 / integrate_0minus) with the contract "returns the '
            'exp-poly-impulse table value" (hypothesis orc_ok), sympy automatic canonicalisation of products and rewrite(exp)/expand '
            '(hyp_expand); both validated on every generated case by the correspondence evaluation',
            'identity testing: values are compared at integer points s0 with exact characters for exp/sin/cos on a lattice (e^{1/D} and '
            'e^{i/D} are algebraically independent transcendentals, so every true identity survives the substitution)',
        ]
        res.assumptions = [
            'field of characteristic 0 with decidable equality; abstract exp with e^{a+b} = e^a e^b, e^0 = 1; sin/cos given by Euler\'s '
            'formulas with j*j = -1, sin(x + pi/2) = cos x, cos(x + pi/2) = -sin x; |a| = a for a > 0; a real subfield with the sign rules of '
            'an ordered field (all hold in C; listed as Section hypotheses in props/C09.v)',
            'analysis statements: real s in the region of convergence, real poles/phases; impulses and complex s are specification-level',
        ]
        texts = {}
        tph = {}
        t_ = time.time()
        # ---- 1. translate -----------------------------------------------------------------------------------
        tr = None
        try:
            tr = T.Translator(core.REPO)
        except T.Untranslatable as e:
            res.failed_obl.append(('translate', 'lcapy/laplace.py', str(e)))
            res.obligations += 1
        gen_ok = False
        if tr is not None:
            texts['LaplaceGen.v'] = tr.coq()
            w.write('LaplaceGen.v', texts['LaplaceGen.v'])
            ok, out, secs = core.coqc(w.dir, 'LaplaceGen.v')
            gen_ok = ok
            if not ok:
                res.failed_obl.append(('LaplaceGen', 'LaplaceGen.v', out[-800:]))
                res.obligations += 1
            res.extra['sin_cos_guards'] = [list(g) for g in tr.guards]
        spec_only = False
        if not gen_ok:
            # the source could not be translated: the props cannot be checked, but the real code can still be compared
            # with the SPECIFICATION (the model run with the hand-written specification forms) to find a failing input
            w.write('LaplaceGen.v', FALLBACK_GEN)
            ok, out, secs = core.coqc(w.dir, 'LaplaceGen.v')
            spec_only = ok
        # ---- 2. cases on the real code -------------------------------------------------------------------------
        n_expr = 64 if tier == 'quick' else 700
        g = Gen(rng)
        cases = []
        if replay:
            c = dict(replay.get('case') or replay.get('replay', {}).get('case') or {})
            if not c:
                print('replay file has no case (it names a theorem/correspondence): %s' % (replay.get('theorem') or replay.get('key')))
            else:
                c.setdefault('points', make_points(rng))
                c.setdefault('kinds', ['replay'])
                c.setdefault('zic', False)
                c['oracle'] = True
                cases = [c]
        else:
            for i in range(n_expr):
                kinds, text = g.expression()
                cases.append({'expr': text, 'zic': rng.random() < 0.3, 'kinds': kinds, 'points': make_points(rng), 'oracle': True,
                              'parts': list(g.last_parts)})
            cases += history_cases(rng)
            # corpus of past findings, always run first
            for txt in ('tri(2*t)', 'rampstep(t/3)', 'rect(t - 1/4)', 'ramp(t + 1)', 'sin(2*t)*u(t - 1)*u(t - 3)',
                        'diff(delta(2*t - 1), t)', 'v(t)*delta(t - 1)', '3*v(t)*delta(t)', 'v(t)*delta(2*t - 1)',
                        'diff(delta(t - 1), t)*v(t)', '5*delta(t)', 'cos(t)*delta(t) + t', 'exp(-2*t)*diff(delta(t), t)',
                        # the three returns of LaplaceTransformer.integral, with a constant inside the integral (const2)
                        'integrate(v(t - tau), (tau, 0, oo))', '3*integrate(2*v(tau), (tau, -1, t))',
                        'integrate(a*x(tau)*h(t - tau), (tau, 0, t)) + integrate((1/2)*y(t - tau), (tau, 0, oo))',
                        'integrate(exp(-2*tau)*x(t - tau), (tau, 0, t))', '3*integrate(v(t - tau)*exp(-tau), (tau, 0, oo)) + exp(-t)'):
                cases.insert(0, {'expr': txt, 'zic': False, 'kinds': ['corpus'], 'points': make_points(rng), 'oracle': True})
                if txt == 'diff(delta(t - 1), t)*v(t)':
                    cases[0]['expect'] = 'error'
        tph['translate+gen'] = round(time.time() - t_, 1); t_ = time.time()
        results = core.run_impl('impl_laplace.py', cases) if cases else []
        tph['impl'] = round(time.time() - t_, 1); t_ = time.time()

        def coq_items(cases, results, level):
            items, meta = [], {}
            k = 0
            for i, (c, r) in enumerate(zip(cases, results)):
                if r.get('status') != 'ok':
                    continue
                for pi, (pt, val) in enumerate(zip(c['points'], r['values'])):
                    lv = level.get((i, pi), 0)
                    D = None
                    v = None
                    for dd in pt['Ds'][lv:]:
                        vv = val.get(str(dd))
                        if isinstance(vv, list):
                            D, v = dd, vv
                            break
                    if D is None:
                        continue
                    items.append((k, D, c['zic'], r['ast'][pi], pt['s0'], v, r['trace'], pi == 0 and not c.get('pre')))
                    meta[k] = (i, pi, D)
                    k += 1
            return items, meta

        def eval_cases(items, tag):
            """-> {k: code} for the failing ones, or None when the evaluation itself broke"""
            shards = [items[i:i + 120] for i in range(0, len(items), 120)]
            names = []
            for si, sh in enumerate(shards):
                nm = 'cases_%s_%d.v' % (tag, si)
                w.write(nm, cases_v(sh))
                names.append(nm)
            return names

        items, meta = coq_items(cases, results, {})
        case_files = eval_cases(items, 'a') if (gen_ok or spec_only) else []
        # ---- 3. prove (phase 2) + evaluate the cases, in parallel ------------------------------------------------
        proof_files = []
        if replay:
            r2 = core.coqc_many(w.dir, case_files, timeout=900) if case_files else {}
        elif gen_ok:
            for f in PHASE2 + PHASE3:
                texts[f] = open(os.path.join(core.VERIF, 'coq', 'props', f)).read()
                w.write(f, texts[f])
            bad = core.gate_text('generated+props', '\n'.join(texts.values()))
            bad += core.gate_files([os.path.join(core.COQ_THEORY, f) for f in sorted(os.listdir(core.COQ_THEORY))
                                    if f.startswith('Laplace') and f.endswith('.v')])
            if bad:
                res.failed_obl.append(('gate', 'props', '; '.join(bad)))
                res.obligations += 1
            r2 = core.coqc_many(w.dir, PHASE2 + case_files, timeout=900)
            okset = set(f for f in PHASE2 if r2[f][0])
            ph3 = [f for f in PHASE3 if all(d in okset for d in DEPENDS[f])]
            r3 = core.coqc_many(w.dir, ph3, timeout=900) if ph3 else {}
            allr = {f: r2[f] for f in PHASE2}
            allr.update(r3)
            res.coq_results(w.dir, allr, {f: texts[f] for f in allr})
            for f in PHASE3:
                if f not in r3:
                    names = core.obligations_in(texts[f])
                    res.obligations += len(names)
                    missing = [d for d in DEPENDS[f] if d not in okset]
                    for nm in names:
                        res.failed_obl.append((nm, f, 'not checked: needs %s' % ', '.join(missing)))
            res.extra['coq_seconds'] = {f: round(r[2], 1) for f, r in list(r2.items()) + list(r3.items())}
            proof_files = list(allr)
        else:
            r2 = core.coqc_many(w.dir, case_files, timeout=900) if case_files else {}
            # the props cannot be checked without the generated definitions
            for f in PHASE2 + PHASE3:
                t = open(os.path.join(core.VERIF, 'coq', 'props', f)).read()
                res.obligations += len(core.obligations_in(t))
        tph['coq'] = round(time.time() - t_, 1); t_ = time.time()
        # ---- 4. read the correspondence evaluation ------------------------------------------------------------
        fail = {}
        corr_broken = False
        for f in case_files:
            ok, out, secs = r2[f]
            fl = parse_failing(out) if ok else None
            if fl is None:
                res.failed_obl.append(('correspondence_eval', f, out[-600:]))
                res.obligations += 1
                corr_broken = True
            else:
                for k, code in fl:
                    fail[k] = code
        # value differences: repeat on finer lattices before believing them
        level = {}
        final_fail = {}
        for rnd in (1, 2):
            retry = {}
            for k, code in fail.items():
                i, pi, D = meta[k]
                if code in (1, 5) and rnd < len(DS) and (results[i].get('oracle') or {}).get('verdict') != 'mismatch':
                    retry[(i, pi)] = rnd
                else:
                    final_fail[(i, pi)] = code
            if not retry or not (gen_ok or spec_only):
                break
            level.update(retry)
            sub_cases_idx = sorted(set(i for i, _ in retry))
            it2, meta2 = coq_items(cases, results, level)
            it2 = [x for x in it2 if (meta2[x[0]][0], meta2[x[0]][1]) in retry]
            names = eval_cases(it2, 'r%d' % rnd)
            rr = core.coqc_many(w.dir, names, timeout=900)
            fail = {}
            meta = meta2
            reached = set()
            for f in names:
                ok, out, secs = rr[f]
                fl = parse_failing(out) if ok else None
                if fl is None:
                    res.failed_obl.append(('correspondence_eval', f, out[-600:]))
                    res.obligations += 1
                    corr_broken = True
                    continue
                for k, code in fl:
                    fail[k] = code
            for x in it2:
                reached.add((meta2[x[0]][0], meta2[x[0]][1]))
            # cases that had no value on the finer lattice keep their verdict
            for key in retry:
                if key not in reached:
                    final_fail[key] = 1
        else:
            for k, code in fail.items():
                i, pi, D = meta[k]
                final_fail[(i, pi)] = code
        tph['retry'] = round(time.time() - t_, 1); t_ = time.time()
        # ---- 5. statistics -------------------------------------------------------------------------------------
        res.programs = len(set(k for c in cases for k in c['kinds']))
        for i, (c, r) in enumerate(zip(cases, results)):
            st = r.get('status')
            res.count('status_' + str(st))
            for kd in c['kinds']:
                res.count('kind_' + kd)
            if st != 'ok':
                continue
            nontrivial = any(e != 0 for e in r['trace'])
            if c.get('expect') == 'error':
                # a product the transformer must refuse (the model has no value for it)
                res.disagreements.append({'case': c, 'lcapy': r.get('result'), 'code': 3, 'oracle': (r.get('oracle') or {}).get('verdict'),
                                          'why': 'expected "Could not compute" but a value was returned'})
            res.add_case(c['expr'] + '|' + str(c['zic']), nontrivial,
                         {'expr': c['expr'], 'zic': c['zic'], 'lcapy': r['result'], 'dispatch_events': r['trace'],
                          'oracle': (r.get('oracle') or {}).get('verdict')} if i % 23 == 0 else None)
            res.count('oracle_' + str((r.get('oracle') or {}).get('verdict')))
            for e in set(r['trace']):
                res.count('event_%d' % e)
        res.extra['traces_validated_against_impl'] = len(items)
        res.rule = ('cases: %d generated expressions (sums of 1-3 terms; term = coefficient x product of <= 3 factors from polynomials, real/complex '
                    'exponentials, sin/cos/sinh/cosh with phase, Heaviside/Dirac (and derivatives) with delays >= 0, rect/tri/ramp/rampstep with scale '
                    'and shift, named functions with shift/scale, derivatives, running integrals in both forms accepted by integral() (lower limit 0, -oo or '
                    'negative), convolutions of two named functions and of exp(a t) with a named function; numeric and symbolic coefficients), history cases '
                    'through one cache, and the corpus of past findings; each evaluated at 2 integer points s0; non-trivial = Lcapy returned a closed form '
                    'and the dispatch took at least one non-default branch; distinct = distinct (expression, zero_initial_conditions)') % n_expr
        # ---- 6. counterexamples: oracle verdicts and value differences ------------------------------------------------
        suspects = []
        for i, (c, r) in enumerate(zip(cases, results)):
            if r.get('status') == 'has_t':
                suspects.append((i, 'result depends on t'))
            elif r.get('status') == 'ok':
                o = r.get('oracle') or {}
                if o.get('verdict') == 'mismatch':
                    suspects.append((i, 'quadrature of the defining integral differs from the returned transform'))
        for (i, pi), code in sorted(final_fail.items()):
            if code == 5:
                if not any(i == j for j, _ in suspects):
                    suspects.append((i, 'the returned transform differs from the specification value at s = %s (exact evaluation inside Coq)' % cases[i]['points'][pi]['s0']))
            elif code in (1, 3) and not any(i == j for j, _ in suspects):
                o = (results[i].get('oracle') or {}).get('verdict')
                res.disagreements.append({'case': cases[i], 'lcapy': results[i].get('result'), 'code': code, 'oracle': o, 'point': cases[i]['points'][pi]})
            elif code == 2:
                res.disagreements.append({'case': cases[i], 'lcapy': results[i].get('result'), 'code': 2, 'trace': results[i].get('trace'),
                                          'oracle': (results[i].get('oracle') or {}).get('verdict')})
        # one extra round on the real code: inputs around broken obligations + single terms of failing sums
        broken = [n for n, f, m in res.failed_obl if not m.startswith('not checked')]
        tc = targeted_cases(rng, broken) if (broken and not replay) else []
        if any(d['code'] in (1, 2, 3) for d in res.disagreements) and not replay:
            # the dispatch / the model differs: probe the boundary inputs of every branch
            for txt in ('delta(t)', '3*delta(t) + exp(-t)', 'diff(delta(t), t)', 'exp(-2*t)*delta(t)', 'cos(t)*delta(t)', 'u(t - 1)',
                        't*u(t - 2)', 'exp(-t)*u(t)', 'u(t)', 'delta(t - 1)*t', 'exp(2*t + 1)', 'sinh(t)', 't**2', 'v(t)*u(t)',
                        'rect(t)', 'ramp(t)*1', 'cos(3*t)*u(t)'):
                tc.append({'expr': txt, 'zic': False, 'kinds': ['boundary'], 'points': make_points(rng, 1), 'oracle': True, 'targeted': True})
        mini = []
        for i, why in suspects:
            r = results[i]
            ast = (r.get('ast') or [None])[0]
            if ast is not None and len(ast) > 1:
                e = cases[i]['expr']
                for p in (cases[i].get('parts') or [e]):
                    mini.append({'expr': p, 'zic': cases[i]['zic'], 'kinds': ['minimised'], 'points': make_points(rng, 1), 'oracle': True, 'from': e})
        seen = set()
        mini = [m for m in mini if not (m['expr'] in seen or seen.add(m['expr']))]
        extra = tc + mini
        xres = core.run_impl('impl_laplace.py', extra) if extra else []
        tres, mres = xres[:len(tc)], xres[len(tc):]
        base = len(cases)
        cases += tc
        results += tres
        for i, (c, r) in enumerate(zip(tc, tres)):
            res.count('targeted')
            o = r.get('oracle') or {}
            if r.get('status') == 'ok' and o.get('verdict') == 'mismatch':
                suspects.append((base + i, 'quadrature of the defining integral differs from the returned transform (targeted search)'))
            elif r.get('status') == 'has_t':
                suspects.append((base + i, 'result depends on t'))
        found = {}
        bad_terms = set()
        for m, r in zip(mini, mres):
            o = r.get('oracle') or {}
            if (r.get('status') == 'ok' and o.get('verdict') == 'mismatch') or r.get('status') == 'has_t':
                key = classify(r['ast'][0]) if r.get('ast') else 'value:?'
                bad_terms.add(m['expr'])
                found.setdefault(key, {'case': {'expr': m['expr'], 'zic': m['zic']}, 'lcapy': r.get('result'), 'oracle': o, 'why': 'minimised from ' + m['from']})
        for i, why in suspects:
            r = results[i]
            ast = (r.get('ast') or [None])[0]
            if ast is not None and len(ast) == 1:
                key = classify(ast)
                cc = {'expr': cases[i]['expr'], 'zic': cases[i]['zic']}
                if cases[i].get('pre'):
                    cc['pre'] = cases[i]['pre']
                    key = 'cache-history:' + key
                found.setdefault(key, {'case': cc, 'lcapy': r.get('result'), 'oracle': r.get('oracle'), 'why': why})
        # sums none of whose single terms fails alone
        for i, why in suspects:
            r = results[i]
            ast = (r.get('ast') or [None])[0]
            if ast is None or len(ast) > 1:
                parts = cases[i].get('parts') or [cases[i]['expr']]
                if not any(p in bad_terms for p in parts):
                    key = classify(ast) if ast else 'value:?'
                    # a single-term run that timed out / failed cannot exonerate the term: fall back to the
                    # fingerprints of the individual terms
                    examined = {m['expr']: r.get('status') for m, r in zip(mini, mres)}
                    if ast and any(examined.get(p) != 'ok' for p in parts):
                        ks = [classify([m]) for m in ast]
                        ks = [k for k in ks if not k.startswith('value:')]
                        if ks:
                            key = ks[0]
                    found.setdefault(key, {'case': {'expr': cases[i]['expr'], 'zic': cases[i]['zic']}, 'lcapy': r.get('result'),
                                           'oracle': r.get('oracle'), 'why': why})
        for key, f in sorted(found.items()):
            res.counterexamples.append(f)
            violations.append({'key': key, 'what': 'Lcapy returns %s for %s, which is not the unilateral Laplace integral (%s)' % (
                                   f['lcapy'], f['case']['expr'], key),
                               'case': f['case'], 'lcapy': f['lcapy'], 'oracle': f['oracle'], 'found_input': True,
                               'how': './check C09 --replay <this file>'})
        tph['search'] = round(time.time() - t_, 1)
        res.extra['phase_seconds'] = tph
        # ---- 7. broken obligations / correspondence without a failing input --------------------------------------------
        explained = set()
        for name, f, msg in res.failed_obl:
            if any(explains(name, k) for k in found):
                explained.add(name)
        root_broken = [n for n, f, m in res.failed_obl if not m.startswith('not checked') and n not in explained]
        for name, f, msg in res.failed_obl:
            if name in explained:
                continue
            if msg.startswith('not checked'):
                # consequence of another failed file: reported through that one
                continue
            violations.append({'key': 'obligation:' + name, 'what': 'Coq obligation %s in %s no longer checks' % (name, f),
                               'theorem': name, 'file': f, 'message': msg[-1500:], 'found_input': False})
        seen_corr = set()
        for d in res.disagreements:
            c = d['case']
            r_ast = None
            sig = 'dispatch' if d['code'] == 2 else 'value'
            # fingerprint: kinds of the expression
            k = 'correspondence:%s:%s' % (sig, '+'.join(sorted(set(c['kinds']))))
            if k in seen_corr or len(seen_corr) >= 3:
                continue
            seen_corr.add(k)
            violations.append({'key': k, 'what': 'the hand model of LaplaceTransformer.term/doit and the real transformer differ (%s)' % sig,
                               'case': {'expr': c['expr'], 'zic': c['zic']}, 'detail': d, 'found_input': False,
                               'correspondence': 'LT.LaplaceModel.doit vs lcapy.laplace.laplace_transformer'})
        if replay and cases:
            r = results[0]
            print('expression      :', cases[0]['expr'], ' zero_initial_conditions =', cases[0].get('zic', False))
            print('implementation  :', r.get('status'), r.get('result') or r.get('error') or '')
            print('dispatch events :', r.get('trace'))
            print('model (Coq)     :', 'agrees' if not final_fail else 'differs, codes %s' % sorted(set(final_fail.values())))
            print('oracle          :', json.dumps(r.get('oracle'), indent=1))
        return core.finish(res, violations)
    finally:
        if not os.environ.get('VERIF_KEEP'):
            w.cleanup()


if __name__ == '__main__':
    sys.exit(run(sys.argv[1] if len(sys.argv) > 1 else 'quick'))
