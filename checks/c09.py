"""C09 — the Laplace transform returned for a signal equals its defining integral.

  translate   lcapy/laplace.py (+ transformer.py, utils.py) -> Gen/LaplaceGen.v        (tools/tr_laplace.py)
  prove       props/C09_entry_*.v  table_entry_<k>: translated closed form = specification entry (LPair)
              props/C09.v          gen_forms_ok, term_sound_gen, doit_sound_gen, L_linear, cache_transparent,
                                   analysis: table entries = the defining integral (LaplaceAnalysis.v)
  correspond  generated expressions of the supported class: real `x(s)` (tools/impl_laplace.py) vs the model
              `doit` of coq/theory/LaplaceModel.v, evaluated by vm_compute inside Coq over Q(i)
              (values at integer points s0 with exact characters for exp/sin/cos; dispatch events)
  search      mpmath quadrature of the defining integral (break points at the discontinuities, impulses
              added analytically) at 3 real + 2 complex s in the region of convergence
"""
import json
import os
import random
import re
import sys
from fractions import Fraction

sys.path.insert(0, os.path.dirname(os.path.dirname(os.path.abspath(__file__))))
from vlib import core
sys.path.insert(0, os.path.join(core.VERIF, 'tools'))
import tr_laplace as T

PID = 'C09'
MANIFEST = {
    'text': 'Coq: (analysis, Coquelicot) the table entries t^n e^{pt}, damped sin/cos with phase, rect/tri/ramp/rampstep(at), '
            'delays and every real exp-poly signal have the stated transform as their improper integral from 0 for real s in '
            'the region of convergence; (algebra, any characteristic-0 field with abstract exp/sin/cos) the closed forms '
            'translated from lcapy/laplace.py on every run equal the specification entries of the inductive relation LPair '
            '(table + linearity, delay, exponential weighting, time scaling, derivative with 0- values, integral, convolution), '
            'and the hand model of LaplaceTransformer.term / UnilateralForwardTransformer.doit is sound for LPair, linear and '
            'cache-transparent.  The model is tied to the code by evaluating it inside Coq on generated expressions against '
            'what Lcapy returned (values and dispatch events).',
    'note': 'partial: complex s and impulse entries are specification-level (no distribution theory / complex improper '
            'integrals for Coq 8.16); sympy.integrate (fall-through branch) is an oracle validated per case, not proved. '
            'Trusted: Coq kernel/vm_compute, tools/tr_laplace.py, the reifier and exact evaluator in tools/impl_laplace.py, '
            'specification coq/theory/LaplaceSig.v; standard-library real-number axioms (listed in the evidence).',
    'technique': 'Coq proof (Coquelicot analysis + field identities over a model translated from source + hand model soundness) '
                 '+ in-Coq correspondence evaluation + quadrature search oracle',
}

# ------------------------------------------------------------------------------------------ generator
RATES = ['1/2', '1', '3/2', '2', '3']
FREQS = ['1', '2', '3', '1/2']
PHASES = ['1/2', '1', '-1/2', '2', '-1']
DELAYS = ['1/2', '1', '3/2', '2', '3']
SCALES = ['2', '3', '1/2', '1/3', '3/2']
COEFS = ['2', '3', '5', '-1', '1/2', '-3/2', '7/3', '-2']
SYMS = ['a', 'b', 'c']


def fr(x):
    return Fraction(x)


def pstr(x):
    """a Fraction as lcapy source text"""
    x = Fraction(x)
    if x.denominator == 1:
        return str(x.numerator) if x >= 0 else '(%d)' % x.numerator
    return '(%d/%d)' % (x.numerator, x.denominator)


def lin(a, b, var='t'):
    a, b = Fraction(a), Fraction(b)
    s = var if a == 1 else ('-' + var if a == -1 else '%s*%s' % (pstr(a), var))
    if b > 0:
        s += ' + %s' % pstr(b)
    elif b < 0:
        s += ' - %s' % pstr(-b)
    return s


class Gen:
    def __init__(self, rng):
        self.rng = rng

    def ch(self, l):
        return self.rng.choice(l)

    def expf(self):
        return 'exp(-%s*t)' % self.ch(RATES)

    def trig(self, phase=True):
        f = self.ch(['sin', 'cos'])
        w = self.ch(FREQS)
        p = self.ch(PHASES) if phase and self.rng.random() < 0.6 else '0'
        return '%s(%s)' % (f, lin(w, p))

    def step(self):
        return 'u(%s)' % lin(1, -fr(self.ch(DELAYS)))

    def powt(self):
        n = self.ch([1, 1, 2, 3])
        return 't' if n == 1 else 't**%d' % n

    # --- classes; each returns (kind, text)
    def k_polyexp(self):
        fs = []
        if self.rng.random() < 0.7:
            fs.append(self.powt())
        if self.rng.random() < 0.8 or not fs:
            fs.append(self.expf())
        if self.rng.random() < 0.2:
            fs.append('u(t)')
        return 'polyexp', '*'.join(fs)

    def k_sincos(self):
        fs = []
        if self.rng.random() < 0.6:
            fs.append(self.expf() if self.rng.random() < 0.8 else 'exp(%s)' % lin(-fr(self.ch(RATES)), self.ch(['1', '1/2'])))
        fs.append(self.trig())
        r = self.rng.random()
        if r < 0.45:
            fs.append(self.step())
        elif r < 0.55:
            fs.append('u(t)')
        self.rng.shuffle(fs)
        return 'sincos', '*'.join(fs)

    def k_product(self):
        r = self.rng.random()
        if r < 0.2:
            return 'product', '%s*%s' % (self.powt(), self.trig(False))
        if r < 0.35:
            return 'product', '%s*%s*%s' % (self.ch(['t', 't**2']), self.expf(), self.trig(False))
        if r < 0.55:
            return 'product', '%s*%s' % (self.expf(), self.step())
        if r < 0.7:
            return 'product', '%s*%s' % (self.powt(), self.step())
        if r < 0.85:
            return 'product', '%s*%s*%s' % (self.powt(), self.expf(), self.step())
        if r < 0.93:
            return 'product', '%s*%s' % (self.step(), self.step())
        return 'product', 'exp(%s)' % lin(-fr(self.ch(RATES)), self.ch(['1', '-1', '1/2']))

    def k_hyp(self):
        f = self.ch(['sinh', 'cosh'])
        a = '%s(%s)' % (f, lin(self.ch(['1', '2', '1/2']), self.ch(['0', '0', '1/2'])))
        r = self.rng.random()
        if r < 0.3:
            return 'hyp', a
        if r < 0.5:
            return 'hyp', '%s*%s' % (a, self.ch(['t', 't**2']))
        if r < 0.75:
            return 'hyp', '%s*%s' % (a, self.expf())
        return 'hyp', '%s*%s' % (a, self.step())

    def k_impulse(self):
        tau = fr(self.ch(['0'] + DELAYS))
        arg = lin(1, -tau)
        r = self.rng.random()
        if r < 0.3:
            return 'impulse', 'delta(%s)' % arg
        if r < 0.5:
            k = self.ch([1, 1, 2])
            return 'impulse', 'diff(delta(%s), t%s)' % (arg, '' if k == 1 else ', %d' % k)
        if r < 0.9:
            g = self.ch([self.powt(), self.expf(), self.trig(), self.expf() + '*' + self.powt()])
            d = 'delta(%s)' % arg if self.rng.random() < 0.7 else 'diff(delta(%s), t)' % arg
            return 'impulse', '%s*%s' % (g, d)
        a = self.ch(['2', '3', '1/2'])
        return 'impulse_scaled', 'delta(%s)' % lin(a, -fr(self.ch(DELAYS)))

    def k_special(self):
        f = self.ch(['rect', 'tri', 'ramp', 'rampstep'])
        r = self.rng.random()
        if r < 0.45:
            a = self.ch(['1'] + SCALES)
            return 'special_scale', '%s(%s)' % (f, lin(a, 0))
        a = fr(self.ch(['1', '1', '2', '1/2']))
        if r < 0.8:
            # support entirely in t >= 0
            b = -a * fr(self.ch(['1', '3/2', '2', '3']))
            if f in ('rect',):
                b -= Fraction(1, 2)
            if f in ('tri',):
                b -= 1
            return 'special_delay', '%s(%s)' % (f, lin(a, b))
        # support starts before 0 (advance)
        b = fr(self.ch(['1/4', '1/2', '1', '3/4']))
        if self.rng.random() < 0.4:
            b = -b if f in ('rect', 'tri') and b < (Fraction(1, 2) if f == 'rect' else 1) else b
        return 'special_straddle', '%s(%s)' % (f, lin(a, b))

    def k_named(self):
        r = self.rng.random()
        v = self.ch(['v', 'x', 'y'])
        if r < 0.12:
            return 'named', '%s(t)' % v
        if r < 0.3:
            return 'named', '%s(%s)' % (v, lin(1, -fr(self.ch(DELAYS))))
        if r < 0.42:
            return 'named', '%s(%s)' % (v, lin(self.ch(SCALES), 0))
        if r < 0.55:
            return 'named', '%s(%s)' % (v, lin(self.ch(SCALES), -fr(self.ch(DELAYS))))
        if r < 0.68:
            arg = lin(1, -fr(self.ch(['0'] + DELAYS)))
            fs = ['%s(%s)' % (v, arg), self.expf()]
            self.rng.shuffle(fs)
            return 'named', '*'.join(fs)
        if r < 0.8:
            k = self.ch([1, 1, 2, 3])
            return 'named_deriv', 'diff(%s(t), t%s)' % (v, '' if k == 1 else ', %d' % k)
        if r < 0.9:
            lo = self.ch(['0', '-oo'])
            return 'named_integ', 'integrate(%s(tau), (tau, %s, t))' % (v, lo)
        h = 'h'
        form = self.ch(['integrate(%s(tau)*%s(t - tau), (tau, 0, t))', 'integrate(%s(t - tau)*%s(tau), (tau, -oo, oo))',
                        'integrate(%s(tau)*%s(t - tau), (tau, -oo, t))'])
        return 'named_conv', form % (v, h)

    def k_cexp(self):
        a = self.ch(['-1', '-2', '-1/2'])
        w = self.ch(['1', '2', '3'])
        sg = self.ch(['+', '-'])
        return 'cexp', 'exp((%s %s %s*j)*t)' % (a, sg, w)

    def k_sc3(self):
        # three factors starting with sin/cos and no exponential
        r = self.rng.random()
        if r < 0.5:
            return 'sincos3', '%s*%s*%s' % (self.trig(False), self.step(), self.step())
        return 'sincos3', '%s*%s*%s' % (self.trig(False), self.trig(False), self.step())

    def atom(self):
        r = self.rng.random()
        for p, f in ((0.14, self.k_polyexp), (0.36, self.k_sincos), (0.5, self.k_product), (0.58, self.k_hyp),
                     (0.69, self.k_impulse), (0.83, self.k_special), (0.95, self.k_named), (0.98, self.k_cexp),
                     (1.01, self.k_sc3)):
            if r < p:
                return f()

    def coef(self):
        r = self.rng.random()
        if r < 0.45:
            return None
        if r < 0.8:
            return pstr(fr(self.ch(COEFS)))
        return self.ch(SYMS)

    def expression(self):
        n = self.ch([1, 1, 1, 2, 2, 3])
        kinds, parts = [], []
        for _ in range(n):
            k, txt = self.atom()
            c = self.coef()
            kinds.append(k)
            parts.append(txt if c is None else '%s*%s' % (c, txt))
        return kinds, ' + '.join(parts)


def make_points(rng, text, nsym_vals=2):
    pts = []
    for s0 in rng.sample([2, 3, 5, 7], 2):
        syms = {n: '%d/%d' % (rng.choice([2, 3, 5, 7]), rng.choice([1, 2])) for n in SYMS}
        pts.append({'s0': s0, 'D': 24, 'syms': syms})
    return pts


# ------------------------------------------------------------------------------------------ Coq case files
def kq(js):
    a, b = Fraction(js[0]), Fraction(js[1])
    return '(qi (%d) %d (%d) %d)' % (a.numerator, a.denominator, b.numerator, b.denominator)


LEAF = {'exp': 'LExp', 'sin': 'LSin', 'cos': 'LCos', 'sinh': 'LSinh', 'cosh': 'LCosh', 'u': 'LU',
        'rect': 'LRect', 'tri': 'LTri', 'ramp': 'LRamp', 'rstep': 'LRstep'}


def leaf_coq(f):
    t = f[0]
    if t == 'powt':
        return '(P %d)' % f[1]
    if t in LEAF:
        return '(%s (K:=QcIF) %s %s)' % (LEAF[t], kq(f[1]), kq(f[2]))
    if t == 'delta':
        return '(LDelta (K:=QcIF) %d %s %s)' % (f[1], kq(f[2]), kq(f[3]))
    if t == 'undef':
        return '(LUndef (K:=QcIF) %d %s %s)' % (f[1], kq(f[2]), kq(f[3]))
    if t == 'deriv':
        return '(LDeriv (K:=QcIF) %d %d)' % (f[1], f[2])
    if t == 'integ':
        return '(LInteg (K:=QcIF) %d)' % f[1]
    if t == 'conv':
        return '(LConv (K:=QcIF) %d %d)' % (f[1], f[2])
    raise ValueError(t)


def tx_coq(ast):
    return '[' + '; '.join('(%s, [%s])' % (kq(m['c']), '; '.join(leaf_coq(f) for f in m['fs'])) for m in ast) + ']'


CASES_HEAD = '''(* GENERATED correspondence cases for C09 (checks/c09.py). *)
Require Import LT.FieldSec LT.QcI LT.PolyQ LT.ExpPoly LT.LaplaceSig LT.LaplaceModel LT.LaplaceExec Gen.LaplaceGen.
From Coq Require Import QArith Qcanon.
Definition P (n : nat) : leaf QcIF := LPowT n.
Definition rc (D : positive) := run_case (gen_forms QcIF (xenv D)) D.
'''


def cases_v(items):
    """items: (index, D, zic, ast, s0, want_js, events, check_events)"""
    lines = [CASES_HEAD, 'Definition cases : list (nat * nat) := [']
    body = []
    for idx, D, zic, ast, s0, want, evs, chk in items:
        body.append('(%d%%nat, rc %d %s %s (qi %d 1 0 1) %s [%s] %s)' % (
            idx, D, 'true' if zic else 'false', tx_coq(ast), s0, kq(want),
            '; '.join('%d%%nat' % e for e in evs), 'true' if chk else 'false'))
    lines.append(';\n'.join(body))
    lines.append('].\nDefinition failing := filter (fun p => negb (Nat.eqb (snd p) 0)) cases.\nEval vm_compute in failing.\n')
    return '\n'.join(lines)


def parse_failing(out):
    m = re.search(r'=\s*\[(.*?)\]\s*:\s*list \(nat \* nat\)', out, re.S)
    if not m:
        return None
    body = m.group(1).strip()
    if not body:
        return []
    return [(int(a), int(b)) for a, b in re.findall(r'\((\d+)(?:%nat)?\s*,\s*(\d+)(?:%nat)?\)', body)]


if __name__ == '__main__' and len(sys.argv) <= 2:
    rng = random.Random(int(sys.argv[1]) if len(sys.argv) > 1 else 0)
    g = Gen(rng)
    for _ in range(40):
        print(g.expression())


# ------------------------------------------------------------------------------------------ experiment driver
def experiment(seed, n):
    rng = random.Random(seed)
    g = Gen(rng)
    cases = []
    for i in range(n):
        kinds, text = g.expression()
        cases.append({'expr': text, 'zic': rng.random() < 0.3, 'kinds': kinds, 'points': make_points(rng, text), 'oracle': True})
    res = core.run_impl('impl_laplace.py', cases)
    w = core.Work(PID + 'x')
    tr = T.Translator(core.REPO)
    w.write('LaplaceGen.v', tr.coq())
    ok, out, secs = core.coqc(w.dir, 'LaplaceGen.v')
    assert ok, out
    items = []
    meta = {}
    k = 0
    for i, (c, r) in enumerate(zip(cases, res)):
        if r.get('status') != 'ok':
            print('SKIP', i, r.get('status'), c['expr'], r.get('error') or r.get('why') or '')
            continue
        for pi, (pt, val) in enumerate(zip(c['points'], r['values'])):
            if isinstance(val, dict):
                print('NOVAL', i, c['expr'], val, r['result'])
                continue
            items.append((k, pt['D'], c['zic'], r['ast'][pi], pt['s0'], val, r['trace'], pi == 0))
            meta[k] = (i, pi)
            k += 1
    w.write('cases_0.v', cases_v(items))
    ok, out, secs = core.coqc(w.dir, 'cases_0.v', timeout=900)
    print('coqc cases', ok, '%.1fs' % secs)
    if not ok:
        print(out[-3000:])
        return
    fl = parse_failing(out)
    print('failing', fl)
    for kk, code in fl or []:
        i, pi = meta[kk]
        print(code, cases[i]['expr'], '| zic', cases[i]['zic'], '| lcapy:', res[i]['result'], '| trace', res[i]['trace'], '| oracle', res[i].get('oracle', {}).get('verdict'))
    for i, (c, r) in enumerate(zip(cases, res)):
        o = r.get('oracle') or {}
        if o.get('verdict') not in (None, 'ok'):
            print('ORACLE', o.get('verdict'), c['expr'], '|', r.get('result'), '|', o.get('why') or o.get('rows'))
    if not os.environ.get('VERIF_KEEP'):
        w.cleanup()
    else:
        print(w.dir)


if __name__ == '__main__' and len(sys.argv) > 2 and sys.argv[2] == 'x':
    experiment(int(sys.argv[1]), int(sys.argv[3]) if len(sys.argv) > 3 else 48)
