"""C20 - schematic layout honours every orientation and minimum-size hint (partial).

  theory     coq/theory/Layout.v       constraints, verified checker, one-position checker, spacing
             coq/theory/LayoutPath.v   longest path (Graph.longest_path) feasible for every DAG
             coq/theory/LayoutPlace.v  hand model of SchemPlacerBase._place/_xlink/_ylink/_make_graphs,
                                       Graph.add, Cnodes.link; constraints_from_hints
             coq/theory/LayoutMulti.v  components with any number of pins: model constraints <-> all-pairs statement
             coq/theory/LayoutPrune.v  Graph.prune: parallel-edge reduction, a fixed edge survives in both views
             coq/theory/LayoutLineq.v  Lineq.add constraint table (a fixed entry is never replaced), evaluated in Coq
                                       against the real Lineq.constraints
             coq/theory/LayoutSolve.v  Graph.solve stages (longest_path/makepath, assign_longest, assign_fixed,
                                       assign_stretchy, path_to_closest_known) as an executable model, evaluated in
                                       Coq against the real solve on every generated graph; refutation theorems
  translate  lcapy/schemcpts.py + lcapy/schematics/components/*.py -> Gen/LayoutGen.v   (tools/tr_schem.py)
             pin tables, node pinnames, stretch flags, direction->angle->matrix table, with obligations
  prove      coq/props/C20.v (property theorems) + Gen/LayoutGen.v obligations
  validate   generated schematics (consistent hints by construction + one-port networks in the three
             layouts) x {graph, lineq} x node_spacing/scale/cpt_size: the positions the REAL placer
             computed are checked against the constraints read off the netlist hints by the VERIFIED
             checker, evaluated inside Coq; the hand model of _make_graphs and of longest_path is
             evaluated inside Coq against the graphs the real code built (correspondence);
             the TikZ text is parsed: one \\coordinate per node at its position, every component once
  search     the same generator (incl. loops with a fixed component in the middle of a slack chain, all four
             directions, both listing orders); a failing schematic is shrunk by deleting components while its
             classification key is preserved; known findings are keyed by violated-constraint kind + root-cause
             signature (see classify())
"""
import hashlib
import json
import os
import random
import re
import sys
from fractions import Fraction

sys.path.insert(0, os.path.dirname(os.path.dirname(os.path.abspath(__file__))))
from vlib import core
sys.path.insert(0, os.path.join(core.VERIF, 'tools'))
import tr_schem as T

PID = 'C20'
MANIFEST = {
    'text': 'Coq theorems (all finite constraint sets, all DAGs, all sizes): the boolean position checker is sound and complete '
            'for the difference constraints pos(b)-pos(a) >= d / = d; the constraint set that the hand model of '
            'SchemPlacerBase._place/_xlink/_ylink/_make_graphs + Graph.add builds for a two-node component with a '
            'right/left/up/down[=size] hint is exactly "second node in the hinted direction on the same axis at distance >= size '
            '(= when fixed), other coordinate equal", also after multiplying by node_spacing; for a component with any number of pins '
            'the model constraints on an axis are equivalent to the all-pairs statement used by the validation; the longest-path distances of '
            'Graph.longest_path (fuelled model) satisfy every >= constraint of every DAG; the emission loop emits each '
            'non-ignored element once; Graph.prune keeps a fixed edge (in the forward and the reverse view) and otherwise a largest '
            'stretchy one; a fixed entry of the Lineq.add constraint table is never replaced.  The stages of Graph.solve '
            '(longest_path/makepath, assign_longest, assign_fixed, assign_stretchy, path_to_closest_known) are an executable Coq model '
            'evaluated against the real solve on every generated graph, with REFUTATION theorems: five concrete feasible constraint '
            'graphs on which the modelled rules violate a constraint (the open findings).  Pin tables, stretch flags and the direction->angle->rotation table are regenerated '
            'from the source on every run with vm_compute obligations.  PARTIAL: the placement heuristics assign_fixed/'
            'assign_stretchy and the Lineq LU solve are not proved; instead every generated schematic (consistent hints by '
            'construction, one-port networks in horizontal/vertical/ladder form, both placers, node_spacing/scale/cpt_size) is '
            'validated: the verified checker is evaluated inside Coq on the positions the real code produced.',
    'note': 'Trusted: Coq kernel/vm_compute; tools/tr_schem.py; the netlist-hint -> constraint reading in checks/c20.py (written from '
            'the property statement; its consistency witness is re-checked in Coq); float->rational conversion of positions with '
            'Fraction(x).limit_denominator(10**6); TikZ text parsing by regular expressions. Modelled and tied by in-Coq correspondence (not proved feasible - '
            'refuted): Graph.solve stages; modelled with theorems: Graph.prune, Lineq.add. Outside the model (validated per case only): Lineq.solve (scipy LU), '
            'graphs with more than 18 gnodes for the solve-stage model, transistor/K/inamp/fdopamp pin geometry, '
            'non-right-angle rotate, offset, mirror/invert, implicit nodes.',
    'technique': 'Coq proof (checker soundness/completeness, longest-path feasibility by induction, constraint extraction) + '
                 'fail-closed AST translation of geometry tables + translation validation of real placements by the verified checker inside Coq',
}

DEN = 10 ** 6
DIRS = ['right', 'up', 'left', 'down']
DVEC = {'right': (1, 0), 'up': (0, 1), 'left': (-1, 0), 'down': (0, -1)}
OPP = {'right': 'left', 'left': 'right', 'up': 'down', 'down': 'up'}
DANGLE = {'right': 0, 'up': 90, 'left': 180, 'down': -90}
ANGLE_DIR = {0: 'right', 90: 'up', 180: 'left', -180: 'left', -90: 'down'}

# two-node kinds: (prefix, netlist suffix after the two nodes, expected class, tikz keyword or None)
TWO_KINDS = [
    ('R', '', 'R'), ('C', '', 'C'), ('L', '', 'L'), ('V', '', 'V'), ('I', '', 'I'), ('W', '', 'W'), ('W', '', 'W'),
    ('O', '', 'O'), ('P', '', 'P'), ('D', '', 'D'), ('Z', '', 'Z'), ('Y', '', 'Y'), ('SW', ' no', 'SWno'),
    ('E', ' 1 2', 'E'), ('G', ' 1 2', 'G'), ('VM', '', 'VM'), ('AM', '', 'AM'), ('BAT', '', 'BAT'), ('XT', '', 'XT'),
    ('NR', '', 'NR'), ('FS', '', 'FS'),
]
# multi-pin kinds: (netlist template, expected class, tikz identification)
MULTI_KINDS = [
    ('TF{i} {n0} {n1} {n2} {n3}', 'TF', 4), ('TF{i} {n0} {n1} {n2} {n3} core', 'TFcore', 4),
    ('GY{i} {n0} {n1} {n2} {n3}', 'GY', 4), ('E{i} {n0} 0 opamp {n1} {n2}', 'Eopamp', 3),
    ('TP{i} {n0} {n1} {n2} {n3}', 'TP', 4), ('TL{i} {n0} {n1} {n2} {n3}', 'TL', 4),
    ('TR{i} {n0} {n1}', 'TR', 2), ('MX{i} {n0} {n1} {n2}', 'MX', 3), ('SW{i} {n0} {n1} {n2} spdt', 'SWspdt', 3),
]
# shapes whose nodes are pins referenced by other components: (netlist keyword, class, pins to use)
SHAPE_KINDS = [
    ('U{i} chip2121', 'Uchip2121', ['l1', 'l2', 'r1', 'r2', 'b1', 't1']),
    ('U{i} chip3131', 'Uchip3131', ['l1', 'l2', 'l3', 'r1', 'r3', 'b1']),
    ('U{i} chip2222', 'Uchip2222', ['l1', 'b2', 'r1', 't1']),
    ('U{i} box4', 'Ubox4', ['w', 's', 'e', 'n']),
    ('U{i} buffer', 'Ubuffer', ['in', 'out', 'vdd']),
    ('U{i} opamp', 'Uopamp', ['in+', 'in-', 'out']),
    ('S{i} box', 'Sbox', ['w', 'e', 'n', 'se']),
]


def fstr(x):
    x = Fraction(x)
    return '%d/%d' % (x.numerator, x.denominator)


def dec(x):
    """decimal text of a Fraction for the netlist (exact for the values we use)"""
    x = Fraction(x)
    if x.denominator == 1:
        return str(x.numerator)
    s = '%.6f' % float(x)
    s = s.rstrip('0').rstrip('.')
    assert Fraction(s) == x, (s, x)
    return s


def rot(d, p):
    """rotate the vector p by the angle of direction d (right = 0, up = 90, left = 180, down = -90)"""
    x, y = p
    if d == 'right':
        return (x, y)
    if d == 'up':
        return (-y, x)
    if d == 'left':
        return (-x, -y)
    return (y, -x)


# ---- specification side: constraints read off the hints (independent of lcapy) -------------
def pin_name_of(geom, cpt, node):
    """pin of component `cpt` that node name `node` denotes (mirrors the netlist syntax: positional
    nodes use node_pinnames, dotted names name.pin use the pin or its alias)"""
    if node in cpt['nodes']:
        idx = cpt['nodes'].index(node)
        return geom['node_pinnames'][idx]
    pn = node.split('.')[-1]
    return geom['aliases'].get(pn, pn)


def pin_coord(geom, pn):
    if pn in geom['pins']:
        return geom['pins'][pn]
    if pn in geom['auxiliary']:
        return geom['auxiliary'][pn]
    raise KeyError(pn)


def cpt_points(geoms, cpt, present):
    """[(node, (vx, vy))]: the component's drawn nodes and their offsets in graph units
    (pin coordinate * (w, h), rotated by the direction, times size * shape_scale)"""
    g = geoms[cpt['cls']]
    size = cpt['size'] * g['shape_scale']
    names = []
    for i, n in enumerate(cpt['nodes']):
        if i < len(g['node_pinnames']) and g['node_pinnames'][i] == '':
            continue
        names.append(n)
    for a in g['required_auxiliary']:
        nm = '%s.%s' % (cpt['name'], a)
        if nm in present and a in g['auxiliary']:
            names.append(nm)
    for nm in cpt.get('pinrefs', []):
        names.append(nm)
    out = []
    seen = set()
    for n in names:
        if n in seen:
            continue
        seen.add(n)
        pn = pin_name_of(g, cpt, n)
        pp, x, y = pin_coord(g, pn)
        if g['can_scale'] and not pp.endswith('x') and (x != 0 or y != 0):
            raise T.Untranslatable('%s pin %s: scaled pin position is not modelled' % (cpt['cls'], pn))
        v = rot(cpt['dir'], (x * g['w'], y * g['h']))
        out.append((n, (v[0] * size, v[1] * size)))
    return out


def constraints_of(geoms, spec, spacing, present):
    """per axis list of (from, to, d, rel, origin) with rel in {'ge','eq'}: the property statement"""
    cx, cy = [], []
    for c in spec:
        if c.get('free'):
            continue
        if c['kind'] == 'two':
            # the property statement itself: second node in the hinted direction at distance >= size * spacing
            # (= when fixed), other coordinate equal.  No geometry table is consulted.
            a, b = c['nodes'][0], c['nodes'][1]
            vx, vy = DVEC[c['dir']]
            d = c['size'] * spacing
            rel = 'eq' if c.get('fixed') else 'ge'
            for v, out in ((vx, cx), (vy, cy)):
                if v == 0:
                    out.append((a, b, Fraction(0), 'eq', c['name']))
                elif v > 0:
                    out.append((a, b, d, rel, c['name']))
                else:
                    out.append((b, a, d, rel, c['name']))
            continue
        g = geoms[c['cls']]
        stretch = g['can_stretch'] and not c.get('fixed')
        pts = cpt_points(geoms, c, present)
        for i in range(len(pts)):
            for j in range(i + 1, len(pts)):
                (a, va), (b, vb) = pts[i], pts[j]
                for ax, out in ((0, cx), (1, cy)):
                    d = (vb[ax] - va[ax]) * spacing
                    if d == 0:
                        out.append((a, b, Fraction(0), 'eq', c['name']))
                    elif d > 0:
                        out.append((a, b, d, 'ge' if stretch else 'eq', c['name']))
                    else:
                        out.append((b, a, -d, 'ge' if stretch else 'eq', c['name']))
    return cx, cy


def py_failing(cs, pos):
    bad = []
    for i, (a, b, d, rel, _) in enumerate(cs):
        if a not in pos or b not in pos:
            bad.append(i)
            continue
        diff = pos[b] - pos[a]
        if (rel == 'ge' and diff < d) or (rel == 'eq' and diff != d):
            bad.append(i)
    return bad


# ---- generator ---------------------------------------------------------------------------------
class Gen(object):
    """grows a connected schematic on a grid; every component is emitted with hints that the chosen
    positions satisfy, so the hint set is consistent by construction (witness = self.pos)"""

    def __init__(self, rng, geoms, rich=True):
        self.rng = rng
        self.geoms = geoms
        self.rich = rich
        self.pos = {}
        self.lines = []
        self.spec = []
        self.count = {}
        self.nn = 0

    def new_node(self, p):
        self.nn += 1
        name = str(self.nn)
        if self.rng.random() < 0.1:
            name = '%d_%d' % (self.nn, self.rng.randint(1, 3))
        self.pos[name] = p
        return name

    def node_at(self, p, reuse=0.7):
        here = [n for n, q in self.pos.items() if q == p and '.' not in n]
        if here and self.rng.random() < reuse:
            return self.rng.choice(here)
        if here:
            return None   # do not stack a second distinct node on an occupied point
        return self.new_node(p)

    def cname(self, prefix):
        self.count[prefix] = self.count.get(prefix, 0) + 1
        return '%s%d' % (prefix, self.count[prefix])

    def add_two(self, a, b, d, L, fixed=None, size=None):
        """component between nodes a -> b, b lies in direction d from a at distance L (graph units)"""
        rng = self.rng
        force_fixed, force_size = fixed, size
        prefix, suffix, cls = rng.choice(TWO_KINDS)
        if rng.random() < 0.5:
            a, b, d = b, a, OPP[d]
        # fixed only for lengths that are exact in binary floating point (lcapy compares fixed sizes with ==)
        fixed = rng.random() < 0.2 and (L.denominator & (L.denominator - 1)) == 0
        if force_fixed is not None:
            fixed = force_fixed
        free = False
        opts = []
        if fixed:
            size = L
        else:
            cands = [L] + [s for s in (Fraction(1, 2), Fraction(1), Fraction(3, 2), L / 2) if 0 < s <= L]
            size = rng.choice(cands)
            if force_size is not None:
                size = force_size
        # how the direction is spelled
        style = rng.random()
        dd = d
        rotate = None
        if self.rich and style < 0.12:
            # direction via rotate: base direction + rotate
            base = rng.choice(DIRS)
            delta = DANGLE[d] - DANGLE[base]
            for cand in (delta, delta - 360, delta + 360):
                if (DANGLE[base] + cand) in ANGLE_DIR and ANGLE_DIR[DANGLE[base] + cand] == d:
                    rotate = cand
                    dd = base
                    break
        if self.rich and rotate is None and style > 0.93 and size == 1:
            # no direction keyword at all: default angle 0 (P: -90) + rotate
            base_angle = -90 if prefix == 'P' else 0
            for cand in (DANGLE[d] - base_angle, DANGLE[d] - base_angle - 360, DANGLE[d] - base_angle + 360):
                if (base_angle + cand) in ANGLE_DIR and ANGLE_DIR[base_angle + cand] == d:
                    rotate = cand
                    dd = None
                    break
        if dd is None:
            if rotate != 0:
                opts.append('rotate=%d' % rotate)
            elif prefix != 'P':
                opts.append('right')   # angle 0 without any hint would make lcapy warn; keep a hint
                dd = 'right'
        else:
            r = rng.random()
            if size == 1 and r < 0.5:
                opts.append(dd)
            elif r < 0.8:
                opts.append('%s=%s' % (dd, dec(size)))
            else:
                opts.append('%s=%s' % (dd, dec(rng.choice([Fraction(1, 2), Fraction(1), Fraction(2)]))) if rng.random() < 0.5 else dd)
                opts.append('size=%s' % dec(size))
            if rotate is not None and rotate != 0:
                opts.append('rotate=%d' % rotate)
        if fixed:
            opts.append('fixed')
        if rng.random() < 0.15:
            opts.append(rng.choice(['color=blue', 'l=x', 'thick', 'dashed']))
        name = self.cname(prefix)
        if prefix in ('W', 'O') and rng.random() < 0.5:
            line = '%s %s %s%s; %s' % (prefix, a, b, suffix, ', '.join(opts))
            name = None   # anonymous: lcapy names it Wanon<k>
        else:
            line = '%s %s %s%s; %s' % (name, a, b, suffix, ', '.join(opts))
        self.lines.append(line)
        self.spec.append({'name': name, 'line': len(self.lines) - 1, 'cls': cls, 'kind': 'two', 'nodes': [a, b], 'dir': d,
                          'size': size, 'fixed': fixed, 'free': free})

    def step_two(self):
        rng = self.rng
        plain = [n for n in self.pos]
        a = rng.choice(plain)
        d = rng.choice(DIRS)
        L = rng.choice([Fraction(1, 2), Fraction(1), Fraction(1), Fraction(3, 2), Fraction(2), Fraction(3)])
        pa = self.pos[a]
        pb = (pa[0] + DVEC[d][0] * L, pa[1] + DVEC[d][1] * L)
        b = self.node_at(pb)
        if b is None or b == a:
            return False
        self.add_two(a, b, d, L)
        return True

    def step_close(self):
        """connect two existing nodes that share a row or column"""
        rng = self.rng
        names = list(self.pos)
        rng.shuffle(names)
        for a in names:
            for b in names:
                if a == b:
                    continue
                pa, pb = self.pos[a], self.pos[b]
                if pa[1] == pb[1] and pb[0] > pa[0]:
                    self.add_two(a, b, 'right', pb[0] - pa[0])
                    return True
                if pa[0] == pb[0] and pb[1] > pa[1]:
                    self.add_two(a, b, 'up', pb[1] - pa[1])
                    return True
        return False

    def step_free(self):
        names = [n for n in self.pos]
        if len(names) < 2:
            return False
        a, b = self.rng.sample(names, 2)
        self.lines.append('W %s %s; free' % (a, b))
        self.spec.append({'name': None, 'line': len(self.lines) - 1, 'cls': 'W', 'kind': 'two', 'nodes': [a, b], 'dir': 'right',
                          'size': Fraction(1), 'fixed': False, 'free': True})
        return True

    def step_multi(self):
        rng = self.rng
        tmpl, cls, nn = rng.choice(MULTI_KINDS)
        g = self.geoms[cls]
        d = rng.choice(DIRS)
        size = rng.choice([Fraction(1), Fraction(1), Fraction(3, 2), Fraction(2), Fraction(1, 2)])
        pins = [p for p in g['node_pinnames'] if p != '']
        anchor_pin = rng.choice(pins)
        a = rng.choice(list(self.pos))
        pa = self.pos[a]
        s = size * g['shape_scale']

        def off(pn):
            pp, x, y = g['pins'][pn]
            v = rot(d, (x * g['w'], y * g['h']))
            return (v[0] * s, v[1] * s)
        oa = off(anchor_pin)
        nodes = []
        for pn in pins:
            if pn == anchor_pin:
                nodes.append(a)
                continue
            o = off(pn)
            p = (pa[0] + o[0] - oa[0], pa[1] + o[1] - oa[1])
            n = self.node_at(p, reuse=0.5)
            if n is None or n in nodes:
                return False
            nodes.append(n)
        i = self.count.get(cls, 0) + 1
        self.count[cls] = i
        prefix = re.match(r'[A-Z]+', tmpl).group(0)
        name = '%s%d' % (prefix, 100 + len(self.spec))
        fmt = {'i': str(100 + len(self.spec))}
        for k, n in enumerate(nodes):
            fmt['n%d' % k] = n
        line = tmpl.format(**fmt)
        r = rng.random()
        if size == g['default_width'] and r < 0.5:
            opts = [d]
        elif r < 0.8:
            opts = ['%s=%s' % (d, dec(size))]
        else:
            opts = [d, 'size=%s' % dec(size)]
        self.lines.append('%s; %s' % (line, ', '.join(opts)))
        # all node names of the netlist line, in order (needed to map nodes to pinnames)
        allnodes = []
        k = 0
        for pn in g['node_pinnames']:
            if pn == '':
                allnodes.append('0')
            else:
                allnodes.append(nodes[k])
                k += 1
        self.spec.append({'name': name, 'line': len(self.lines) - 1, 'cls': cls, 'kind': 'multi', 'nodes': allnodes, 'dir': d,
                          'size': size, 'fixed': False, 'free': False})
        return True

    def step_shape(self):
        rng = self.rng
        tmpl, cls, usable = rng.choice(SHAPE_KINDS)
        g = self.geoms[cls]
        d = rng.choice(DIRS)
        size = rng.choice([g['default_width'], g['default_width'], Fraction(1), Fraction(2), Fraction(3)])
        k = rng.randint(1, min(3, len(usable)))
        pins = rng.sample(usable, k)
        anchor_pin = pins[0]
        a = rng.choice([n for n in self.pos if '.' not in n])
        pa = self.pos[a]
        s = size * g['shape_scale']
        idx = 100 + len(self.spec)
        name = re.match(r'[A-Z]+', tmpl).group(0) + str(idx)

        def off(pn):
            pp, x, y = g['pins'][pn]
            v = rot(d, (x * g['w'], y * g['h']))
            return (v[0] * s, v[1] * s)
        # the anchor pin is joined to node a by a wire of length L in a direction pointing away from the shape
        pp = g['pins'][anchor_pin][0][0]
        outward = {'l': 'left', 'r': 'right', 't': 'up', 'b': 'down'}[pp]
        wd = {'right': 0, 'up': 1, 'left': 2, 'down': 3}
        outward = DIRS[(wd[outward] + wd[d]) % 4]
        L = rng.choice([Fraction(1, 2), Fraction(1), Fraction(2)])
        # a --(wire, direction opposite to outward)--> pin   i.e. pin = a - outward*L ... pin lies inward of a
        ppos = (pa[0] - DVEC[outward][0] * L, pa[1] - DVEC[outward][1] * L)
        oa = off(anchor_pin)
        origin = (ppos[0] - oa[0], ppos[1] - oa[1])
        pinnodes = []
        for pn in pins:
            o = off(pn)
            nm = '%s.%s' % (name, pn)
            self.pos[nm] = (origin[0] + o[0], origin[1] + o[1])
            pinnodes.append(nm)
        opts = [d] if (size == g['default_width'] and rng.random() < 0.5) else ['%s=%s' % (d, dec(size))] if rng.random() < 0.6 else [d, 'size=%s' % dec(size)]
        self.lines.append('%s; %s' % (tmpl.format(i=idx), ', '.join(opts)))
        self.spec.append({'name': name, 'line': len(self.lines) - 1, 'cls': cls, 'kind': 'shape', 'nodes': [], 'pinrefs': pinnodes, 'dir': d,
                          'size': size, 'fixed': False, 'free': False})
        # wire from the anchor pin outward to a
        self.lines.append('W %s %s; %s=%s' % (pinnodes[0], a, outward, dec(L)))
        self.spec.append({'name': None, 'line': len(self.lines) - 1, 'cls': 'W', 'kind': 'two', 'nodes': [pinnodes[0], a], 'dir': outward,
                          'size': L, 'fixed': False, 'free': False})
        # the other pins get a stub wire outward to a fresh node
        for pn, nm in zip(pins[1:], pinnodes[1:]):
            pp = g['pins'][pn][0][0]
            outw = DIRS[(wd[{'l': 'left', 'r': 'right', 't': 'up', 'b': 'down'}[pp]] + wd[d]) % 4]
            L2 = rng.choice([Fraction(1, 2), Fraction(1)])
            p = self.pos[nm]
            q = (p[0] + DVEC[outw][0] * L2, p[1] + DVEC[outw][1] * L2)
            b = self.node_at(q, reuse=0.5)
            if b is None:
                continue
            self.lines.append('W %s %s; %s=%s' % (nm, b, outw, dec(L2)))
            self.spec.append({'name': None, 'line': len(self.lines) - 1, 'cls': 'W', 'kind': 'two', 'nodes': [nm, b], 'dir': outw,
                              'size': L2, 'fixed': False, 'free': False})
        return True

    def step_chain_loop(self):
        """a loop whose one side is the critical path (components at their minimum size) and whose other side
        is a chain of 3-4 components with slack: stretchy, FIXED (or a fixed-size TR block) in the middle,
        stretchy - in any of the four directions, listed forwards or backwards"""
        rng = self.rng
        d = rng.choice(DIRS)
        pdir = DIRS[(DIRS.index(d) + rng.choice([1, 3])) % 4]
        A = rng.choice([n for n in self.pos if '.' not in n])
        pa = self.pos[A]
        half = Fraction(1, 2)
        k = rng.choice([3, 3, 4])
        lens = [Fraction(rng.randint(1, 4), 2) for _ in range(k)]
        j = rng.randint(1, k - 2)
        # the fixed one keeps a binary-exact length; give the stretchy ones room
        for i in range(k):
            if i != j and lens[i] < 1:
                lens[i] = Fraction(1)
        T = sum(lens)

        def at(t, off):
            return (pa[0] + DVEC[d][0] * t + DVEC[pdir][0] * off, pa[1] + DVEC[d][1] * t + DVEC[pdir][1] * off)
        occupied = set(self.pos.values())
        pts = [at(T, 0), at(0, 1), at(T, 1)]
        acc = Fraction(0)
        inner = []
        for i in range(k - 1):
            acc += lens[i]
            inner.append(at(acc, 1))
        ncrit = rng.choice([1, 2])
        mid = at(T / 2, 0) if ncrit == 2 else None
        # optionally a stretchy twin of EQUAL size in parallel with the fixed component: either between the
        # same two nodes or one step further out (joined by perpendicular wires), listed before or after it
        twin = rng.choice(['none', 'offset', 'offset', 'same'])
        tj0 = sum(lens[:j], Fraction(0))
        twin_pts = [at(tj0, 2), at(tj0 + lens[j], 2)] if twin == 'offset' else []
        allpts = pts + inner + ([mid] if mid else []) + twin_pts
        if len(set(allpts)) != len(allpts) or any(q in occupied for q in allpts):
            return False
        B = self.new_node(pts[0])
        A1 = self.new_node(pts[1])
        B1 = self.new_node(pts[2])
        chain_nodes = [A1] + [self.new_node(q) for q in inner] + [B1]
        # critical side at minimum size
        if ncrit == 2:
            M = self.new_node(mid)
            self.add_two(A, M, d, T / 2, fixed=False, size=T / 2)
            self.add_two(M, B, d, T / 2, fixed=False, size=T / 2)
        else:
            self.add_two(A, B, d, T, fixed=False, size=T)
        self.add_two(A, A1, pdir, Fraction(1), fixed=False, size=Fraction(1))
        segs = list(range(k))
        if rng.random() < 0.5:
            segs.reverse()
        twin_first = rng.random() < 0.4
        for i in segs:
            a, b, L = chain_nodes[i], chain_nodes[i + 1], lens[i]

            def add_twin():
                if twin == 'same':
                    self.add_two(a, b, d, L, fixed=False, size=L)
                elif twin == 'offset':
                    a2, b2 = self.new_node(twin_pts[0]), self.new_node(twin_pts[1])
                    self.add_two(a, a2, pdir, Fraction(1), fixed=False, size=Fraction(1))
                    self.add_two(a2, b2, d, L, fixed=False, size=L)
                    self.add_two(b, b2, pdir, Fraction(1), fixed=False, size=Fraction(1))
            if i == j and twin != 'none':
                if twin_first:
                    add_twin()
                self.add_two(a, b, d, L, fixed=True)
                if not twin_first:
                    add_twin()
            elif i == j:
                if rng.random() < 0.3:
                    idx = 100 + len(self.spec)
                    name = 'TR%d' % idx
                    self.lines.append('%s %s %s; %s=%s' % (name, a, b, d, dec(L)))
                    self.spec.append({'name': name, 'line': len(self.lines) - 1, 'cls': 'TR', 'kind': 'multi', 'nodes': [a, b],
                                      'dir': d, 'size': L, 'fixed': False, 'free': False})
                else:
                    self.add_two(a, b, d, L, fixed=True)
            else:
                self.add_two(a, b, d, L, fixed=False, size=rng.choice([s_ for s_ in (half, Fraction(1), L / 2) if s_ < L] or [half]))
        self.add_two(B, B1, pdir, Fraction(1), fixed=False, size=Fraction(1))
        return True

    def build(self, ncomp, chain=False):
        rng = self.rng
        self.new_node((Fraction(rng.randint(0, 3)), Fraction(rng.randint(0, 3))))
        # the first component must create a second node
        first = dict(self.pos)
        if chain:
            if not self.step_chain_loop():
                chain = False
        if not chain:
            while not self.step_two():
                self.pos = dict(first)
        tries = 0
        while len(self.spec) < ncomp and tries < 200:
            tries += 1
            r = rng.random()
            snap = (dict(self.pos), self.nn, len(self.lines), len(self.spec), dict(self.count))
            if r < 0.55:
                ok = self.step_two()
            elif r < 0.75:
                ok = self.step_close()
            elif r < 0.78 and self.rich:
                ok = self.step_free()
            elif r < 0.9 and self.rich:
                ok = self.step_multi()
            elif self.rich:
                ok = self.step_shape()
            else:
                ok = False
            if not ok:
                self.pos, self.nn = snap[0], snap[1]
                del self.lines[snap[2]:]
                del self.spec[snap[3]:]
                self.count = snap[4]
            else:
                self.drop_orphans()
        return self

    def drop_orphans(self):
        used = set()
        for c in self.spec:
            used.update(c['nodes'])
            used.update(c.get('pinrefs', []))
        for n in list(self.pos):
            if n not in used:
                del self.pos[n]


def spec_to_json(spec):
    out = []
    for c in spec:
        d = dict(c)
        d['size'] = fstr(c['size'])
        out.append(d)
    return out


def spec_from_json(spec):
    out = []
    for c in spec:
        d = dict(c)
        d['size'] = Fraction(c['size'])
        out.append(d)
    return out


NETS = ['R(1)+C(2)', 'R(1)|C(2)', '(R(1)+C(2))|L(3)', 'R(1)+(C(2)|L(3))', '(R(1)|C(2))+(L(3)|R(4))', 'R(1)|C(2)|L(3)',
        'R(1)+C(2)+L(3)', '(R(1)+L(2))|(C(3)+R(4))|L(5)', 'Vstep(2)+R(1)+(C(2)|R(3))', 'R(1)|(L(2)+(C(3)|R(4)))',
        '((R(1)+L(2))|C(3))+R(4)', 'R(1)|C(2)|L(3)|R(4)', 'I(1)|R(2)|(C(3)+L(4))', '(R(1)|R(2))+(R(3)|R(4))+(R(5)|R(6))',
        'R(1)+(C(2)|(L(3)+(R(4)|C(5))))', 'V(1)+R(2)', 'L(1)', 'C(1)|(R(2)+(L(3)|(R(4)+C(5))))']
LADDER_OK = ['R(1)+C(2)', 'R(1)|C(2)', '(R(1)+C(2))|L(3)', 'R(1)+(C(2)|L(3))', 'R(1)|(L(2)+(C(3)|R(4)))',
             'R(1)+(C(2)|(L(3)+(R(4)|C(5))))', 'C(1)|(R(2)+(L(3)|(R(4)+C(5))))', 'L(1)', 'V(1)+R(2)']


def rand_net(rng, depth=0):
    leaf = lambda: '%s(%d)' % (rng.choice(['R', 'C', 'L']), rng.randint(1, 9))
    if depth >= 3 or rng.random() < 0.3:
        return leaf()
    op = rng.choice(['+', '|'])
    n = rng.choice([2, 2, 3])
    parts = []
    for _ in range(n):
        p = rand_net(rng, depth + 1)
        parts.append(p)
    return '(' + (' %s ' % op).join(parts) + ')'


# ---- reading a network netlist back into a spec (hints are in the generated netlist text) ------
HINT_RE = re.compile(r'^(right|left|up|down)(?:=(.*))?$')


def spec_of_netlist(lines):
    """our own reading of netlist lines `name n1 n2 [args]; dir[=size], ...` (two-node components only)"""
    spec = []
    for li, line in enumerate(lines):
        line = line.strip()
        if not line or line.startswith(';') or line.startswith('#'):
            continue
        head, _, opts = line.partition(';')
        parts = head.split()
        if len(parts) < 3:
            raise ValueError('cannot read netlist line %r' % line)
        name, a, b = parts[0], parts[1], parts[2]
        d, size, fixed, free = None, None, False, False
        for o in [x.strip() for x in opts.split(',')]:
            m = HINT_RE.match(o)
            if m:
                d = m.group(1)
                if m.group(2) not in (None, ''):
                    if size is None:
                        size = Fraction(m.group(2)).limit_denominator(DEN)   # netlist sizes are decimal floats
            elif o.startswith('size='):
                size = Fraction(o[5:]).limit_denominator(DEN)
            elif o == 'fixed':
                fixed = True
            elif o == 'free':
                free = True
        if d is None:
            raise ValueError('no direction hint in %r' % line)
        cls = re.match(r'[A-Za-z]+', name).group(0)
        anon = name in ('W', 'O', 'P')
        spec.append({'name': None if anon else name, 'line': li, 'cls': cls, 'kind': 'two', 'nodes': [a, b], 'dir': d,
                     'size': size if size is not None else Fraction(1), 'fixed': fixed, 'free': free})
    return spec


# ---- TikZ text check -------------------------------------------------------------------------------
COORD_RE = re.compile(r'^\s*\\coordinate \((.+?)\) at \((-?[0-9.]+),(-?[0-9.]+)\);\s*$')
TO_RE = re.compile(r'^\s*\\draw(?:\[[^\]]*\])? \(([^()]+)\) to(?: \[(.*)\])? \(([^()]+)\);\s*$')


def tikz_check(tikz, res, spec, geoms):
    """list of problems (strings); empty = the drawing text has one coordinate per node at its position
    and each drawn component exactly once"""
    probs = []
    coords = {}
    lines = tikz.split('\n')
    for ln in lines:
        m = COORD_RE.match(ln)
        if m:
            coords.setdefault(m.group(1), []).append((m.group(2), m.group(3)))
    tol = Fraction(1, 2000) + Fraction(1, 10 ** 9)
    for n, ent in res['nodes'].items():
        s = n.replace('.', '@')
        c = coords.get(s, [])
        if len(c) != 1:
            probs.append('node %s has %d \\coordinate lines' % (n, len(c)))
            continue
        if not ent.get('finite'):
            continue
        for txt, key in zip(c[0], ('x', 'y')):
            if abs(Fraction(txt) - Fraction(ent[key])) > tol:
                probs.append('node %s: \\coordinate %s=%s but position is %s' % (n, key, txt, ent[key]))
    extra = set(coords) - set(n.replace('.', '@') for n in res['nodes'])
    if extra:
        probs.append('coordinates for unknown nodes %s' % sorted(extra))
    # two-node components: `(a) to [..] (b)` lines per unordered node pair
    want = {}
    named = {}
    for c in spec:
        if c['kind'] == 'two':
            a, b = [x.replace('.', '@') for x in c['nodes'][:2]]
            want[frozenset((a, b))] = want.get(frozenset((a, b)), 0) + 1
            if c['name'] and c['cls'] not in ('W',):
                named[c['name']] = frozenset((a, b))
        elif c['cls'] in ('TF', 'TFcore'):
            n = [x.replace('.', '@') for x in c['nodes']]
            for pr in (frozenset((n[2], n[3])), frozenset((n[0], n[1]))):
                want[pr] = want.get(pr, 0) + 1
    got = {}
    gotnamed = {}
    for ln in lines:
        m = TO_RE.match(ln)
        if m:
            pr = frozenset((m.group(1), m.group(3)))
            got[pr] = got.get(pr, 0) + 1
            mm = re.search(r'n=([A-Za-z0-9_@]+)\s*$', m.group(2) or '')
            if mm:
                gotnamed.setdefault(mm.group(1), []).append(pr)
    for pr in set(want) | set(got):
        if want.get(pr, 0) != got.get(pr, 0):
            probs.append('%d draw command(s) between %s, expected %d' % (got.get(pr, 0), sorted(pr), want.get(pr, 0)))
    for nm, pr in named.items():
        g = gotnamed.get(nm.replace('.', '@'), [])
        if len(g) != 1 or g[0] != pr:
            probs.append('component %s drawn %d time(s) %s' % (nm, len(g), [sorted(x) for x in g]))
    # multi-pin shapes: the identifying node appears once
    for c in spec:
        if c['kind'] == 'two':
            continue
        s = c['name'].replace('.', '@')
        if c['cls'] in ('TF', 'TFcore', 'Eopamp', 'TP', 'GY', 'SWspdt', 'Sbox'):
            k = sum(1 for ln in lines if re.search(r'\] \(%s\) \{' % re.escape(s), ln))
            if k != 1:
                probs.append('shape %s drawn %d times' % (c['name'], k))
        elif c['cls'].startswith('U') or c['cls'] in ('TR',):
            k = sum(1 for ln in lines if ('(%s@mid) node[' % s) in ln and 'anchor=' not in ln)
            k2 = sum(1 for ln in lines if re.search(r'\] \(%s\) \{' % re.escape(s), ln))
            if k + k2 < 1 or k2 > 1:
                probs.append('shape %s label/body drawn %d/%d times' % (c['name'], k, k2))
    return probs


# ---- evaluation of one run (python side; the verdict is re-done by the verified checker in Coq) ----
def translate_geoms():
    tr = T.Translator(core.REPO)
    geoms, skipped = tr.drawable()
    return tr, geoms, skipped


def real_positions(res):
    px, py, bad = {}, {}, []
    for n, ent in res['nodes'].items():
        if not ent.get('finite'):
            bad.append(n)
            continue
        px[n] = Fraction(ent['x'])
        py[n] = Fraction(ent['y'])
    return px, py, bad


def name_spec(spec, res):
    """attach lcapy's names to anonymous components (W -> Wanon<k>) by netlist line order"""
    elts = [e for e in res['elts'] if not e['directive']]
    out = []
    for c in spec:
        c = dict(c)
        out.append(c)
    if len(elts) == len(out):
        for c, e in zip(out, elts):
            c['lname'] = e['name']
            c['lcls'] = e['cls']
    return out


def evaluate(case, res, geoms):
    """returns dict with constraints, positions and python-side failing lists"""
    spec = case['_spec']
    spacing = Fraction(case['opts'].get('node_spacing', '2'))
    present = set(res['nodes'])
    cx, cy = constraints_of(geoms, spec, spacing, present)
    px, py, nonfinite = real_positions(res)
    return {'cx': cx, 'cy': cy, 'px': px, 'py': py, 'nonfinite': nonfinite,
            'fx': py_failing(cx, px), 'fy': py_failing(cy, py)}


# ---- running and shrinking --------------------------------------------------------------------------
def send_of(case, workdir, graphs=False):
    d = {k: v for k, v in case.items() if not k.startswith('_')}
    d['workdir'] = workdir
    d['graphs'] = graphs
    return d


def sub_case(case, keep):
    """the case restricted to the netlist lines in `keep` (list of line indices)"""
    new = dict(case)
    new['lines'] = [case['lines'][i] for i in keep]
    sp = []
    for newi, i in enumerate(keep):
        for c in case['_spec']:
            if c['line'] == i:
                c2 = dict(c)
                c2['line'] = newi
                sp.append(c2)
    # a pin of a shape is a node only while some other line refers to it
    for c2 in sp:
        if c2.get('pinrefs'):
            others = ' '.join(l for k, l in enumerate(new['lines']) if k != c2['line']).replace(';', ' ').split()
            c2['pinrefs'] = [p for p in c2['pinrefs'] if p in others]
    new['_spec'] = sp
    return new


def case_fails(case, res, geoms):
    """python-side: does the real placement violate a constraint / lack a finite position?"""
    if 'error' in res:
        return False
    try:
        ev = evaluate(case, res, geoms)
    except Exception:
        return False
    return bool(ev['fx'] or ev['fy'] or ev['nonfinite'])


def own_violated(res):
    """Items of lcapy's OWN constraint structure (graph edges / lineq constraints / common nodes) that the
    output of lcapy's SOLVE STAGE ALONE (graph units, before the node spacing is applied) violates.
    Each item: dict(ax, kind in {'ge','eq','link','raised'}, cpt, f, t, size, slack, how_f, how_t)."""
    gr = res.get('graphs')
    if not gr:
        return None
    bad = []
    for ax in ('x', 'y'):
        g = gr[ax]
        if g.get('solve_error'):
            bad.append({'ax': ax, 'kind': 'raised', 'error': g['solve_error'], 'line': g.get('solve_error_line')})
            continue
        sol = g.get('solved')
        if sol is None:
            continue
        how = g.get('assigned') or {}
        walked = g.get('walked') or {}
        rule_ok = g.get('rule_ok') or {}
        squeezed = g.get('squeezed') or {}
        wedges = g.get('walked_edges') or {}
        spath = g.get('stretch_path') or {}

        def chord_of_walk(end, other, e):
            # `end` was positioned by a two-known-nodes walk whose path contains the node `other` but NOT the
            # edge e, and that walk is not the path the stretch was computed for (fail closed: facts must be recorded)
            if end not in wedges or end not in spath or end not in walked:
                return False
            return other in walked[end] and e not in wedges[end] and wedges[end] != spath[end]
        for cpt, f, t, size, stretch in g['edges']:
            if f[0] not in sol or t[0] not in sol:
                continue
            slack = Fraction(sol[t[0]]) - Fraction(sol[f[0]]) - Fraction(size)
            if (stretch and slack < 0) or (not stretch and slack != 0):
                bad.append({'ax': ax, 'kind': 'ge' if stretch else 'eq', 'cpt': cpt, 'f': f, 't': t, 'size': size,
                            'slack': fstr(slack), 'how_f': how.get('|'.join(f)), 'how_t': how.get('|'.join(t)),
                            'rule_f': rule_ok.get('|'.join(f)), 'rule_t': rule_ok.get('|'.join(t)),
                            'squeezed_f': bool(squeezed.get('|'.join(f))), 'squeezed_t': bool(squeezed.get('|'.join(t))),
                            'f_on_walk_of_t': '|'.join(f) in walked.get('|'.join(t), ['|'.join(f)]),
                            't_on_walk_of_f': '|'.join(t) in walked.get('|'.join(f), ['|'.join(t)]),
                            'chord_of_walk_of_t': chord_of_walk('|'.join(t), '|'.join(f), '|'.join(f) + '>' + '|'.join(t)),
                            'chord_of_walk_of_f': chord_of_walk('|'.join(f), '|'.join(t), '|'.join(f) + '>' + '|'.join(t)),
                            'walk_of_t': wedges.get('|'.join(t)), 'stretch_path_of_t': spath.get('|'.join(t)),
                            'walk_of_f': wedges.get('|'.join(f)), 'stretch_path_of_f': spath.get('|'.join(f))})
        for n, members in g['cnodes'].items():
            if n in sol and members[0] in sol and Fraction(sol[n]) != Fraction(sol[members[0]]):
                bad.append({'ax': ax, 'kind': 'link', 'f': [n], 't': [members[0]]})
    return bad


RIGID = ('fixed', 'longest')


def graph_signature(item):
    """root-cause signature of one violated >= edge of the graph placer, from the stage that positioned
    its end points (recorded by the observation-only trace in tools/impl_schem.py), or None"""
    hf, ht = item.get('how_f'), item.get('how_t')
    if item.get('rule_f') is not True or item.get('rule_t') is not True:
        # an end point is NOT where the documented rule of its stage puts it: not the recorded defect
        return None
    if hf == 'dangling' or ht == 'dangling':
        # positioned by the start/end ("dangling") branch of assign_stretchy1 / path_to_closest_known
        return 'Graph.assign_stretchy:stretchy-ge-violated:dangling-path'
    if (str(ht).startswith('between') and not item.get('f_on_walk_of_t', True)) or \
            (str(hf).startswith('between') and not item.get('t_on_walk_of_f', True)):
        # one end was positioned by the two-known-nodes branch along a walked path that does not contain
        # this edge: path_to_closest_known selected another placed neighbour (it minimises pos - size)
        return 'Graph.assign_stretchy:stretchy-ge-violated:unwalked-neighbour'
    if (str(hf).startswith('between') and item.get('squeezed_f') and ht in RIGID) or \
            (str(ht).startswith('between') and item.get('squeezed_t') and hf in RIGID):
        # the stretch stage found its two placed end nodes CLOSER than the minimum extent of the path between
        # them (lcapy prints "Inconsistent ... will not fit") because one of them was positioned rigidly by
        # assign_fixed1 / the critical path without regard to this path
        return 'Graph.assign_fixed:stretchy-ge-violated:squeezed-path'
    if hf in RIGID and ht in RIGID:
        # both ends were positioned rigidly (critical path / fixed offsets): the longest-path stage treats
        # fixed edges as one-directional
        return 'Graph.assign_fixed:stretchy-ge-violated:rigid-fixed-chain'
    if (str(ht).startswith('between') and not item.get('squeezed_t') and item.get('chord_of_walk_of_t') is True) or \
            (str(hf).startswith('between') and not item.get('squeezed_f') and item.get('chord_of_walk_of_f') is True):
        # one end was positioned by the two-known-nodes branch along a walked path (path_to_closest_known from
        # the gnode being processed) that is NOT the path the stretch was computed for (longest_path between the
        # two placed end nodes); both ends of this edge lie on the walked path but the edge itself does not (it
        # is a chord of the walk): the node was laid out as a passer-by of another gnode's walk with the stretch
        # of a different path, its own edge from the walk's placed end node / an earlier walked node ignored
        return 'Graph.assign_stretchy:stretchy-ge-violated:walk-not-longest-path'
    return None


def classify(case, res, spec_bad):
    """key of a violating placement.  It is a KNOWN-finding key only for the specific situations recorded in
    known_findings.json:
      graph : every violated spec constraint is a '>=' of a stretchy component, the solve stage alone violates
              only '>=' edges of lcapy's own (Coq-validated) graph, and every such edge has one of the
              root-cause signatures above;
      lineq : the solve stage alone violates its own constraints and (a) the LU factor has a rounding-residue
              pivot, or (b) an off-diagonal pivot (equation left out), or (c) only stretchy constraints are
              violated and their negative slacks are exactly the 'Negative stretch' values lcapy warned about.
    A violated '=' (fixed) constraint of the graph placer, unequal linked coordinates, a wrong direction
    (own structure satisfied but specification violated), missing/duplicate positions ... are always new."""
    method = case['method']
    new_key = 'placement:%s' % method
    if 'positions' in spec_bad:
        return 'positions:' + method, {}
    own = own_violated(res)
    det = {'solve_stage_violates_own_constraints': (own or [])[:8]}
    if not own:
        return new_key, det
    spec_kinds = set(c[3] for ax in ('x', 'y') for c in spec_bad.get(ax, []))
    if method == 'graph':
        if all(o['kind'] == 'eq' and o.get('how_f') in RIGID and o.get('how_t') in RIGID and
               o.get('rule_f') is True and o.get('rule_t') is True for o in own) and spec_kinds == {'eq'}:
            # a redundant fixed edge between two nodes that were BOTH positioned rigidly (critical path /
            # assign_fixed1 through another fixed edge) and never by the stretch stage
            det['signatures'] = ['Graph.assign_fixed:fixed-eq-violated:rigid-fixed-chain']
            return 'Graph.assign_fixed:fixed-eq-violated:rigid-fixed-chain', det
        if spec_kinds != {'ge'} or any(o['kind'] != 'ge' for o in own):
            return new_key, det
        sigs = set(graph_signature(o) for o in own)
        if None in sigs:
            return new_key, det
        det['signatures'] = sorted(sigs)
        return sorted(sigs)[0], det
    if method == 'lineq':
        gr = res['graphs']
        sigs = set()
        for ax in ('x', 'y'):
            items = [o for o in own if o['ax'] == ax]
            if not items:
                continue
            g = gr[ax]
            if any(o['kind'] in ('raised', 'link') for o in items):
                sigs.add(None)
                continue
            if g.get('lu_tiny_pivots'):
                sigs.add('Lineq.solve:float-rank')
            elif g.get('lu_offdiag_rows'):
                sigs.add('Lineq.solve:equation-dropped')
            elif all(o['kind'] == 'ge' for o in items) and \
                    set(Fraction(o['slack']) for o in items) == set(Fraction(x) for x in g.get('neg_warned', [])):
                sigs.add('Lineq.solve:negative-stretch')
            else:
                sigs.add(None)
        if None in sigs or not sigs:
            return new_key, det
        if 'Lineq.solve:negative-stretch' in sigs and spec_kinds - {'ge'} and sigs == {'Lineq.solve:negative-stretch'}:
            return new_key, det
        det['signatures'] = sorted(sigs)
        return sorted(sigs)[0], det
    return new_key, det


def spec_bad_of(case, res, geoms):
    ev = evaluate(case, res, geoms)
    b = {}
    if ev['fx']:
        b['x'] = [list(map(str, ev['cx'][i])) for i in ev['fx']]
    if ev['fy']:
        b['y'] = [list(map(str, ev['cy'][i])) for i in ev['fy']]
    if ev['nonfinite']:
        b['positions'] = {'nonfinite': ev['nonfinite']}
    return b


def shrink(case, geoms, workdir, rounds=12, key=None):
    """delete netlist lines while the real placement still violates a constraint AND the violation keeps
    the same classification key (so that a new kind of violation cannot shrink into a known one)"""
    if 'lines' not in case:
        return case
    cur = case
    for _ in range(rounds):
        n = len(cur['lines'])
        if n <= 1:
            break
        cands = [sub_case(cur, [i for i in range(n) if i != k]) for k in range(n)]
        ress = core.run_impl('impl_schem.py', [send_of(c, workdir, graphs=True) for c in cands])
        nxt = None
        for c, r in zip(cands, ress):
            if not case_fails(c, r, geoms):
                continue
            if key is not None:
                try:
                    k2, _ = classify(c, r, spec_bad_of(c, r, geoms))
                except Exception:
                    continue
                if k2 != key:
                    continue
            nxt = c
            break
        if nxt is None:
            break
        cur = nxt
    return cur


# ---- Coq case files -------------------------------------------------------------------------------------
def qlit(x):
    x = Fraction(x)
    return '(%d # %d)' % (x.numerator, x.denominator)


def coq_cstrs(cs, ids):
    return '[' + '; '.join('mkC %d%%nat %d%%nat %s %s' % (ids[a], ids[b], qlit(d), 'RGe' if rel == 'ge' else 'REq')
                           for a, b, d, rel, _ in cs) + ']'


def coq_pos(pos, ids):
    return '[' + '; '.join('(%d%%nat, %s)' % (ids[n], qlit(v)) for n, v in sorted(pos.items(), key=lambda kv: ids[kv[0]])) + ']'


COQ_DIR = {'right': 'DRight', 'up': 'DUp', 'left': 'DLeft', 'down': 'DDown'}


def model_cpts(case, res, geoms, ids):
    """the inputs of the Coq model of _make_graphs for this netlist, or None when a component is
    outside the modelled geometry"""
    spec = name_spec(case['_spec'], res)
    elts = {e['name']: e for e in res['elts'] if not e['directive']}
    out = []
    for c in spec:
        g = geoms[c['cls']]
        e = elts.get(c.get('lname'))
        if e is None:
            return None
        pins = []
        nodes = []
        for n in e['nodes']:
            if n in e['node_names']:
                idx = e['node_names'].index(n)
                pn = g['node_pinnames'][idx]
            else:
                pn = n.split('.')[-1]
                pn = g['aliases'].get(pn, pn)
            if pn == '':
                continue
            try:
                pp, x, y = pin_coord(g, pn)
            except KeyError:
                return None
            if g['can_scale'] and not pp.endswith('x') and (x != 0 or y != 0):
                return None
            nodes.append(ids[n])
            pins.append('(%s, %s)' % (qlit(x), qlit(y)))
        stretch = g['can_stretch'] and not c.get('fixed')
        skip = bool(c.get('free')) or not g['place'] or g['directive']
        out.append('mkCpt [%s] [%s] %s %s %s %s %s %s' % (
            '; '.join('%d%%nat' % n for n in nodes), '; '.join(pins), qlit(g['w']), qlit(g['h']), COQ_DIR[c['dir']],
            qlit(c['size'] * g['shape_scale']), 'true' if stretch else 'false', 'true' if skip else 'false'))
    return '[' + ';\n    '.join(out) + ']'


def real_graph_coq(gr, ids, nstart):
    """real graph of one axis as Coq terms: edges (labelled by least member id), labels, pruned
    edges and the dist values longest_path stored"""
    def lab(members):
        return min(ids[m] for m in members)
    edges = '[' + '; '.join('mkG %d%%nat %d%%nat %s %s' % (lab(f), lab(t), qlit(Fraction(sz)), 'true' if st else 'false')
                            for _, f, t, sz, st in gr['edges']) + ']'
    labels = '[' + '; '.join('(%d%%nat, %d%%nat)' % (ids[n], lab(m)) for n, m in sorted(gr['cnodes'].items(), key=lambda kv: ids[kv[0]])) + ']'
    gn = []
    for f, t, sz in gr['pruned']:
        for m in (f, t):
            l = lab(m)
            if l not in gn:
                gn.append(l)
    pruned = '[' + '; '.join('mkE %d%%nat %d%%nat %s' % (lab(f), lab(t), qlit(Fraction(sz))) for f, t, sz in gr['pruned']) + ']'
    dist = []
    for members, d in gr['ldist']:
        if members == ['start']:
            k = nstart
        elif members == ['end']:
            k = nstart + 1
        else:
            k = lab(members)
        dist.append('(%d%%nat, %s)' % (k, 'None' if d is None else 'Some %s' % qlit(Fraction(d))))
    return edges, labels, pruned, '[' + '; '.join('%d%%nat' % g for g in gn) + ']', '[' + '; '.join(dist) + ']', len(gn)


CASES_HEADER = '''(* GENERATED by checks/c20.py: the verified checker and the hand model evaluated on what the real
   lcapy placer produced.  Prints the (case, tag, index) triples that fail.
   tags: 0/1 real positions violate x/y constraint #index; 2/3 the generator's witness violates x/y
   constraint #index (hint set not consistent: generator bug); 4 node #index does not have exactly one
   \\coordinate; 5/6 model x/y edges differ from the real graph; 7/8 model common-node classes differ;
   9/10 model longest-path distance differs for gnode #index; 11/12 x/y group #index of parallel edges:
   what prune() left in the forward or in the reverse edge list is not LayoutPrune.best of the group;
   13/14 x/y gnode #index: LayoutSolve.solve (model of longest_path/assign_longest/assign_fixed/assign_stretchy)
   puts it elsewhere than the real Graph.solve did (15/16: same, for a graph with sizes that are not exact
   binary fractions - counted only, rounding may break a tie differently);
   17/18 lineq placer: LayoutLineq.lineq_table folded over the model's x/y edges differs from the real
   Lineq.constraints *)
From Coq Require Import QArith List Bool Arith.
Require Import LT.Layout LT.LayoutPath LT.LayoutPlace LT.LayoutPrune LT.LayoutSolve LT.LayoutLineq.
Import ListNotations.
Local Open Scope Q_scope.
Definition tag (c t : nat) (l : list nat) : list (nat * nat * nat) := map (fun i => (c, t, i)) l.
Definition flag (b : bool) : list nat := if b then [] else [0%nat].
Definition dist_bad (E : list (edge Q)) (tgt F : nat) (real : list (nat * option Q)) : list nat :=
  map fst (filter (fun p => negb (odist_eqb (ldistQ E tgt F (fst p)) (snd p))) real).
'''


def coq_case(k, case, res, ev, geoms, with_model):
    """Coq text for case number k; returns (text, ids)"""
    names = sorted(set(res['nodes']) | set(n for c in (ev['cx'] + ev['cy']) for n in c[:2]))
    ids = {n: i for i, n in enumerate(names)}
    L = []
    px = {n: v for n, v in ev['px'].items()}
    py = {n: v for n, v in ev['py'].items()}
    L.append('Definition px_%d := %s.' % (k, coq_pos(px, ids)))
    L.append('Definition py_%d := %s.' % (k, coq_pos(py, ids)))
    L.append('Definition cx_%d := %s.' % (k, coq_cstrs(ev['cx'], ids)))
    L.append('Definition cy_%d := %s.' % (k, coq_cstrs(ev['cy'], ids)))
    parts = ['tag %d 0 (failing cx_%d (lookup px_%d))' % (k, k, k), 'tag %d 1 (failing cy_%d (lookup py_%d))' % (k, k, k)]
    if case.get('_wit'):
        sp = Fraction(case['opts'].get('node_spacing', '2'))
        wx = {n: p[0] * sp for n, p in case['_wit'].items() if n in ids}
        wy = {n: p[1] * sp for n, p in case['_wit'].items() if n in ids}
        # constraints among witness nodes only (auxiliary nodes such as X.mid have no witness entry)
        cxw = [c for c in ev['cx'] if c[0] in wx and c[1] in wx]
        cyw = [c for c in ev['cy'] if c[0] in wy and c[1] in wy]
        L.append('Definition wx_%d := %s.' % (k, coq_pos(wx, ids)))
        L.append('Definition wy_%d := %s.' % (k, coq_pos(wy, ids)))
        L.append('Definition cxw_%d := %s.' % (k, coq_cstrs(cxw, ids)))
        L.append('Definition cyw_%d := %s.' % (k, coq_cstrs(cyw, ids)))
        parts.append('tag %d 2 (failing cxw_%d (lookup wx_%d))' % (k, k, k))
        parts.append('tag %d 3 (failing cyw_%d (lookup wy_%d))' % (k, k, k))
    # one coordinate per drawn node
    coords = []
    for ln in res['tikz'].split('\n'):
        m = COORD_RE.match(ln)
        if m:
            nm = m.group(1)
            back = [n for n in ids if n.replace('.', '@') == nm]
            coords.append(ids[back[0]] if back else len(ids) + 7)
    L.append('Definition drawn_%d : list nat := [%s].' % (k, '; '.join('%d%%nat' % i for i in sorted(ids.values()))))
    L.append('Definition coords_%d : list nat := [%s].' % (k, '; '.join('%d%%nat' % i for i in coords)))
    parts.append('tag %d 4 (not_one drawn_%d coords_%d)' % (k, k, k))
    if with_model and res.get('graphs') and case['method'] == 'lineq' and all('table' in res['graphs'][a] for a in 'xy'):
        ks = model_cpts(case, res, geoms, ids)
        if ks is not None:
            L.append('Definition ks_%d : list cpt := %s.' % (k, ks))
            L.append('Definition nodes_%d : list nat := [%s].' % (k, '; '.join('%d%%nat' % ids[n] for n in sorted(res['nodes'], key=lambda n: ids[n]))))
            for ax, t0 in (('x', 17), ('y', 18)):
                tab = res['graphs'][ax]['table']
                real = '[' + '; '.join('mkL %d%%nat %d%%nat %s %s' % (min(ids[m] for m in f), min(ids[m] for m in t), qlit(Fraction(sz)),
                                                                     'true' if st else 'false') for f, t, sz, st in tab) + ']'
                L.append('Definition lab_%s_%d := cnodes nodes_%d (%slinks_of ks_%d).' % (ax, k, k, ax, k))
                L.append('Definition lt_%s_%d : list lcon := %s.' % (ax, k, real))
                parts.append('tag %d %d (flag (same_table (lineq_table (map (gedge_lab lab_%s_%d) (%sedges_of ks_%d))) lt_%s_%d))' % (
                    k, t0, ax, k, ax, k, ax, k))
            ev.setdefault('lineq_table_model', []).append('evaluated')
        else:
            ev.setdefault('lineq_table_model', []).append('geometry_not_modelled_skipped')
    if with_model and res.get('graphs') and case['method'] == 'graph':
        ks = model_cpts(case, res, geoms, ids)
        if ks is not None:
            L.append('Definition ks_%d : list cpt := %s.' % (k, ks))
            L.append('Definition nodes_%d : list nat := [%s].' % (k, '; '.join('%d%%nat' % ids[n] for n in sorted(res['nodes'], key=lambda n: ids[n]))))
            ns = len(ids) + 10
            for ax, t0 in (('x', 5), ('y', 6)):
                edges, labels, pruned, gn, dist, ngn = real_graph_coq(res['graphs'][ax], ids, ns)
                L.append('Definition re_%s_%d : list gedge := %s.' % (ax, k, edges))
                L.append('Definition rl_%s_%d : list (nat * nat) := %s.' % (ax, k, labels))
                L.append('Definition lab_%s_%d := cnodes nodes_%d (%slinks_of ks_%d).' % (ax, k, k, ax, k))
                parts.append('tag %d %d (flag (same_edges (map (gedge_lab lab_%s_%d) (%sedges_of ks_%d)) re_%s_%d))' % (k, t0, ax, k, ax, k, ax, k))
                parts.append('tag %d %d (flag (lab_eqb lab_%s_%d rl_%s_%d))' % (k, t0 + 2, ax, k, ax, k))
                grp = res['graphs'][ax].get('groups')
                if grp is not None:
                    def pe(x):
                        return '(%s, %s)' % (qlit(Fraction(x[0])), 'true' if x[1] else 'false')

                    def one(lst):
                        # prune must leave exactly one edge per pair in each view
                        return 'Some %s' % pe(lst[0]) if len(lst) == 1 else 'None'
                    items = ['([%s], %s, %s)' % ('; '.join(pe(x) for x in ge), one(gf), one(gv)) for _, _, ge, gf, gv in grp]
                    L.append('Definition pg_%s_%d : list (list pedge * option pedge * option pedge) := [%s].' % (ax, k, '; '.join(items)))
                    parts.append('tag %d %d (prune_bad pg_%s_%d)' % (k, t0 + 6, ax, k))
                sv = solve_case_coq(k, ax, res['graphs'][ax])
                if isinstance(sv, tuple):
                    L.append(sv[0])
                    parts.append(sv[1])
                    ev.setdefault('solve_model', []).append('evaluated')
                else:
                    ev.setdefault('solve_model', []).append(sv)
                if ngn:
                    L.append('Definition pe_%s_%d : list (edge Q) := with_start_end %s %s %d%%nat %d%%nat.' % (ax, k, gn, pruned, ns, ns + 1))
                    L.append('Definition rd_%s_%d : list (nat * option Q) := %s.' % (ax, k, dist))
                    parts.append('tag %d %d (dist_bad pe_%s_%d %d%%nat %d%%nat rd_%s_%d)' % (k, t0 + 4, ax, k, ns + 1, ngn + 4, ax, k))
    L.append('Definition r_%d := %s.' % (k, ' ++ '.join(parts)))
    return '\n'.join(L) + '\n', ids


def solve_case_coq(k, ax, g, max_gnodes=18):
    """Coq text evaluating the model of the graph SOLVE STAGE (LT.LayoutSolve.solve) on the graph the real
    code had after add_start_nodes, compared with the positions the real Graph.solve returned.
    Returns (text, result name) or a string naming why the case is skipped."""
    si = g.get('solve_in')
    if not si or 'solved' not in g:
        return 'no_solve'
    if len(si) > max_gnodes:
        return 'large'
    ids = {'|'.join(lab): i for i, (lab, _, _) in enumerate(si)}
    exact = True
    for lab, fe, re_ in si:
        for to, size, st, raw in fe + re_:
            # the model computes in Q; it MUST agree with the float run only when every size is exact in binary
            # (otherwise a tie between two candidate paths can be broken differently by rounding): such graphs
            # are still evaluated, a difference is only counted (tags 15/16)
            if Fraction(float(raw)) != Fraction(size):
                exact = False
    if 'start' not in ids or 'end' not in ids:
        return 'no_solve'

    def edges(l):
        return '[' + '; '.join('mkS %d%%nat %s %s' % (ids['|'.join(to)], qlit(Fraction(size)), 'true' if st else 'false') for to, size, st, _ in l) + ']'
    F = '[' + '; '.join('(%d%%nat, %s)' % (ids['|'.join(lab)], edges(fe)) for lab, fe, _ in si) + ']'
    R = '[' + '; '.join('(%d%%nat, %s)' % (ids['|'.join(lab)], edges(re_)) for lab, _, re_ in si) + ']'
    # `unknown = list(self.keys())` is taken before start/end are added, then 'start' and 'end' are appended
    gn = [ids['|'.join(lab)] for lab, _, _ in si]
    real = []
    for lab, _, _ in si:
        if lab in (['start'], ['end']):
            continue
        if lab[0] not in g['solved']:
            return 'no_solve'
        real.append('(%d%%nat, %s)' % (ids['|'.join(lab)], qlit(Fraction(g['solved'][lab[0]]))))
    nm = 'sv_%s_%d' % (ax, k)
    txt = ('Definition svF_%s_%d : adj := %s.\nDefinition svR_%s_%d : adj := %s.\n'
           'Definition %s := tag %d %d (solve_bad svF_%s_%d svR_%s_%d [%s] %d%%nat %d%%nat [%s]).\n') % (
        ax, k, F, ax, k, R, nm, k, (13 if ax == 'x' else 14) + (0 if exact else 2), ax, k, ax, k, '; '.join('%d%%nat' % i for i in gn),
        ids['start'], ids['end'], '; '.join(real))
    return txt, nm


def parse_triples(out):
    m = re.search(r'=\s*\[(.*?)\]\s*:\s*list \(nat \* nat \* nat\)', out, re.S)
    if not m:
        return None
    return [(int(a), int(b), int(c)) for a, b, c in re.findall(r'\(\s*(\d+)(?:%nat)?\s*,\s*(\d+)(?:%nat)?\s*,\s*(\d+)(?:%nat)?\s*\)', m.group(1))]


# ---- case construction ----------------------------------------------------------------------------------------
SPACINGS = ['1', '3/2', '2', '2', '5/2', '3']

# minimal reproducers of the defects recorded in known_findings.json (always run first)
CORPUS = [
    # graph placer, distinct failing situations (known_findings.json)
    {'id': 'corpus_graph_dangling', 'method': 'graph', 'opts': {'node_spacing': '1'},
     'lines': ['VM3 1 3; up=0.5', 'W1 3 6; up=0.5', 'L1 2 6; up, size=2', 'W2 2 3; up=0.75']},
    {'id': 'corpus_graph_unwalked', 'method': 'graph', 'opts': {'node_spacing': '3'},
     'lines': ['W1 2 3; down', 'C1 1 2; down, size=3, fixed', 'D1 2 4_3; up=0.5', 'C2 1 4_3; down=2', 'SW1 3 4_3 no; up, size=0.5']},
    {'id': 'corpus_graph_rigid_ge', 'method': 'graph', 'opts': {'node_spacing': '3/2'},
     'lines': ['NR1 1 2_2; down=1, fixed', 'W2 5 2_2; up', 'V1 3_3 7; up=0.5, size=3, fixed', 'Y1 2_2 3_3; right=1', 'FS1 1 5; down=1, size=3']},
    {'id': 'corpus_graph_rigid_eq', 'method': 'graph', 'opts': {'node_spacing': '2'},
     'lines': ['P1 1 4; right=1, fixed', 'I1 5 1; right=0.5', 'L1 5 4; right=2, fixed', 'P2 6 1; left=2']},
    {'id': 'corpus_graph_offpath', 'method': 'graph', 'opts': {'node_spacing': '1'},
     'lines': ['R1 1 2; right=0.75', 'C1 2 3; right=0.5', 'R2 3 4; right=0.5', 'L1 1 3; right=2', 'W1 1 4; right=3']},
    {'id': 'corpus_graph_squeezed', 'method': 'graph', 'opts': {'node_spacing': '2'},
     'lines': ['Y1 1 7; right=1.75', 'Z1 7 2; right=1.75', 'O1 1 3; down', 'NR1 3 5; right=0.5', 'O 5 6; right, fixed',
               'G1 2 4 1 2; down', 'R9 5 9; right=4', 'P2 6 4; right=1.5, fixed']},
    # lineq placer, symptom classes of Lineq.solve
    {'id': 'corpus_lineq_negative_stretch', 'method': 'lineq', 'opts': {'node_spacing': '1'},
     'lines': ['VM1 2 1; down=0.5, size=1', 'VM3 1 3; up=0.5', 'W2 2 3; up=0.75']},
    {'id': 'corpus_lineq_equation_dropped', 'method': 'lineq', 'opts': {'node_spacing': '2'},
     'lines': ['R1 1 2; up=1.5', 'NR1 2 3; down=0.25', 'BAT2 8 3; down=0.5', 'W 2 8; up=0.5, fixed']},
    {'id': 'corpus_lineq_float_rank', 'method': 'lineq', 'opts': {'node_spacing': '2'},
     'lines': ['R1 1 2; right=0.1, fixed', 'R2 2 3; right=0.2, fixed', 'R3 1 3; right=0.3, fixed']},
    # regression sentinel for the repaired Lineq.add (fix eafc8c3): must pass
    {'id': 'corpus_lineq_fixed_replaced', 'method': 'lineq', 'opts': {'node_spacing': '2'},
     'lines': ['V1 2 1; down, fixed', 'L1 1 2; up=0.5']},
]
F = Fraction
CORPUS_WIT = {
    'corpus_graph_dangling': {'2': (0, 0), '3': (0, 1), '1': (0, F(1, 2)), '6': (0, 2)},
    'corpus_graph_unwalked': {'1': (0, 4), '2': (0, 1), '3': (0, 0), '4_3': (0, 2)},
    'corpus_graph_rigid_ge': {'1': (0, 3), '2_2': (0, 2), '5': (0, 0), '3_3': (1, 2), '7': (1, 5)},
    'corpus_graph_squeezed': {'1': (0, 1), '7': (F(7, 4), 1), '2': (F(7, 2), 1), '3': (0, 0), '5': (1, 0), '6': (2, 0),
                              '4': (F(7, 2), 0), '9': (5, 0)},
    'corpus_graph_rigid_eq': {'5': (0, 0), '1': (1, 0), '4': (2, 0), '6': (3, 0)},
    'corpus_graph_offpath': {'1': (0, 0), '2': (1, 0), '3': (2, 0), '4': (3, 0)},
    'corpus_lineq_negative_stretch': {'2': (0, 1), '1': (0, 0), '3': (0, 2)},
    'corpus_lineq_equation_dropped': {'1': (1, 0), '2': (1, 3), '3': (1, F(5, 2)), '8': (1, F(7, 2))},
    'corpus_lineq_float_rank': {'1': (0, 0), '2': (F(1, 10), 0), '3': (F(3, 10), 0)},
    'corpus_lineq_fixed_replaced': {'2': (0, 1), '1': (0, 0)},
}


# deterministic probes (consistent, with witness): a fixed component in series with a stretchy wire inside a loop
# whose other side is longer - the wire alone must take up the slack
PROBES = [
    ('probe_fixed_right', ['R1 1 2; right=1, fixed', 'W 2 3; right=0.5', 'R2 1 4; down=1', 'W 3 5; down=1', 'R3 4 5; right=3'],
     {'1': (0, 1), '2': (1, 1), '3': (3, 1), '4': (0, 0), '5': (3, 0)}),
    ('probe_fixed_down', ['C1 1 2; down=1, fixed', 'W 2 3; down=0.5', 'W 1 4; right=1', 'W 3 5; right=1', 'C2 4 5; down=3'],
     {'1': (0, 3), '2': (0, 2), '3': (0, 0), '4': (1, 3), '5': (1, 0)}),
    ('probe_fixed_left', ['L1 1 2; left=1, fixed', 'W 2 3; left=0.5', 'W 1 4; up=1', 'W 3 5; up=1', 'L2 4 5; left=3'],
     {'1': (3, 0), '2': (2, 0), '3': (0, 0), '4': (3, 1), '5': (0, 1)}),
    ('probe_size_over_dir', ['R1 1 2; right=1, size=2, fixed', 'W 1 3; down=1', 'W 2 4; down=1', 'W 3 4; right'],
     {'1': (0, 1), '2': (2, 1), '3': (0, 0), '4': (2, 0)}),
]


def _chain_probe(d, pdir):
    # critical side 1 -> 6 -> 0 (3 + 3); chain 2 -> 3 -> 4 -> 5 with the fixed component in the middle
    lines = ['V1 1 6; %s=3' % d, 'W1 6 0; %s=3' % d, 'W2 1 2; %s' % pdir, 'R1 2 3; %s' % d, 'R2 3 4; %s, fixed' % d,
             'R3 4 5; %s' % d, 'W3 0 5; %s' % pdir]
    t = {'1': (0, 0), '6': (3, 0), '0': (6, 0), '2': (0, 1), '3': (2, 1), '4': (3, 1), '5': (6, 1)}
    wit = {n: (DVEC[d][0] * a + DVEC[pdir][0] * b, DVEC[d][1] * a + DVEC[pdir][1] * b) for n, (a, b) in t.items()}
    return ('probe_chain_%s' % d, lines, wit)


def _parallel_probe(d, pdir, fixed_first):
    # critical side 1 -> 8 -> 6 (3 + 3); below it the column pair (2,4 | 3,5) carries a fixed and an equal-size
    # stretchy component in parallel; 3 -> 7 closes the loop with slack
    fx, st = 'R2 2 3; %s=2, fixed' % d, 'R1 4 5; %s=2' % d
    mid = [fx, 'W 2 4; %s' % pdir, st] if fixed_first else [st, 'W 2 4; %s' % pdir, fx]
    lines = ['W 1 8; %s=3' % d, 'W 8 6; %s=3' % d, 'W 1 2; %s' % pdir] + mid + ['W 3 5; %s' % pdir, 'R3 3 7; %s' % d, 'W 6 7; %s' % pdir]
    t = {'1': (0, 0), '8': (3, 0), '6': (6, 0), '2': (0, 1), '3': (2, 1), '4': (0, 2), '5': (2, 2), '7': (6, 1)}
    wit = {n: (DVEC[d][0] * a + DVEC[pdir][0] * b, DVEC[d][1] * a + DVEC[pdir][1] * b) for n, (a, b) in t.items()}
    return ('probe_parallel_%s_%s' % (d, 'ff' if fixed_first else 'sf'), lines, wit)


PROBES += [_parallel_probe(d_, p_, ff_) for d_, p_ in (('right', 'down'), ('left', 'up'), ('up', 'right'), ('down', 'left')) for ff_ in (True, False)]
PROBES += [_chain_probe('down', 'right'), _chain_probe('left', 'down'), _chain_probe('right', 'up'), _chain_probe('up', 'left')]


def normalise_pinrefs(lines, spec):
    for c in spec:
        if c.get('pinrefs'):
            others = ' '.join(l for k, l in enumerate(lines) if k != c['line']).replace(';', ' ').split()
            c['pinrefs'] = [p for p in c['pinrefs'] if p in others]


def make_cases(rng, geoms, tier):
    cases = []
    for c in CORPUS:
        c = dict(c)
        c['_spec'] = spec_of_netlist(c['lines'])
        c['_wit'] = {n: (Fraction(p[0]), Fraction(p[1])) for n, p in CORPUS_WIT[c['id']].items()}
        c['_kind'] = 'corpus'
        cases.append(c)
    cases.append({'id': 'corpus_ladder_single', 'net': 'L(1)', 'layout': 'ladder', 'method': 'graph', 'opts': {}, '_kind': 'network'})
    cases.append({'id': 'corpus_lineq_singular_lineq', 'net': 'R(1)|C(2)|L(3)|R(4)', 'layout': 'horizontal', 'method': 'lineq',
                  'opts': {'node_spacing': '1'}, '_kind': 'network'})
    cases.append({'id': 'corpus_lineq_singular_graph', 'net': 'R(1)|C(2)|L(3)|R(4)', 'layout': 'horizontal', 'method': 'graph',
                  'opts': {'node_spacing': '1'}, '_kind': 'network'})
    for pid, lines, wit in PROBES:
        for m in ('graph', 'lineq'):
            cases.append({'id': '%s_%s' % (pid, m), 'lines': list(lines), 'method': m, 'opts': {'node_spacing': '2'},
                          '_spec': spec_of_netlist(lines), '_wit': {n: (Fraction(p[0]), Fraction(p[1])) for n, p in wit.items()},
                          '_kind': 'probe'})
    ngen = 44 if tier == 'quick' else 900
    for i in range(ngen):
        chain = (i % 3 == 1)
        g = Gen(rng, geoms, rich=(i % 3 != 0)).build(rng.randint(2, 10 if tier == 'quick' else 14) + (8 if chain else 0), chain=chain)
        normalise_pinrefs(g.lines, g.spec)
        opts = {'node_spacing': rng.choice(SPACINGS)}
        if rng.random() < 0.4:
            opts['scale'] = rng.choice(['1/2', '1', '2'])
        if rng.random() < 0.4:
            opts['cpt_size'] = rng.choice(['1', '3/2', '2'])
        for m in ('graph', 'lineq'):
            cases.append({'id': 'gen%d_%s' % (i, m), 'lines': list(g.lines), 'method': m, 'opts': dict(opts),
                          '_spec': [dict(c) for c in g.spec], '_wit': dict(g.pos), '_kind': 'generated'})
    nets = []
    pool = list(NETS)
    rng.shuffle(pool)
    nnet = 22 if tier == 'quick' else 300
    while len(nets) < nnet:
        if pool and rng.random() < 0.6:
            net = pool.pop()
        else:
            net = rand_net(rng)
        layouts = ['horizontal', 'vertical']
        if net in LADDER_OK:
            layouts.append('ladder')
        nets.append((net, rng.choice(layouts)))
    for i, (net, layout) in enumerate(nets):
        opts = {'node_spacing': rng.choice(SPACINGS)} if rng.random() < 0.6 else {}
        for m in ('graph', 'lineq'):
            cases.append({'id': 'net%d_%s' % (i, m), 'net': net, 'layout': layout, 'method': m, 'opts': dict(opts),
                          '_kind': 'network'})
    return cases


def fingerprint(case):
    """structural fingerprint of a netlist case: method + lines with nodes renamed in order of appearance"""
    ren = {}
    out = []
    for l in case.get('lines', [case.get('net', ''), case.get('layout', '')]):
        head, _, opts = l.partition(';')
        toks = head.split()
        new = [re.sub(r'\d+$', '', toks[0])] if toks else []
        for t in toks[1:3]:
            ren.setdefault(t, 'n%d' % len(ren))
            new.append(ren[t])
        out.append(' '.join(new) + ';' + ','.join(sorted(o.strip() for o in opts.split(',') if re.match(r'\s*(right|left|up|down|size|fixed|rotate|free)', o))))
    return hashlib.sha1(('%s|%s' % (case.get('method'), '|'.join(out))).encode()).hexdigest()[:12]


def public_case(case):
    d = {k: v for k, v in case.items() if not k.startswith('_')}
    if '_spec' in case:
        d['spec'] = spec_to_json(case['_spec'])
    if case.get('_wit'):
        d['witness'] = {n: [fstr(p[0]), fstr(p[1])] for n, p in case['_wit'].items()}
    d['kind'] = case.get('_kind')
    return d


def case_from_public(d):
    c = {k: v for k, v in d.items() if k not in ('spec', 'witness', 'kind')}
    if 'spec' in d:
        c['_spec'] = spec_from_json(d['spec'])
    if 'witness' in d:
        c['_wit'] = {n: (Fraction(p[0]), Fraction(p[1])) for n, p in d['witness'].items()}
    c['_kind'] = d.get('kind', 'replay')
    return c


# ---- main ----------------------------------------------------------------------------------------------------------
BIPOLE_LIKE = sorted(set(k[2] for k in TWO_KINDS))


def theory_ready():
    mine = [os.path.join(core.COQ_THEORY, f + '.v') for f in ('Layout', 'LayoutPath', 'LayoutPlace')]
    if all(os.path.exists(v + 'o') and os.path.getmtime(v + 'o') >= os.path.getmtime(v) for v in mine):
        return True
    try:
        core.ensure_theory()
        return True
    except RuntimeError:
        # another property's theory file may be mid-edit; ours must be compiled and fresh
        for f in ('Layout', 'LayoutPath', 'LayoutPlace', 'LayoutMulti', 'LayoutPrune', 'LayoutSolve', 'LayoutLineq'):
            v = os.path.join(core.COQ_THEORY, f + '.v')
            vo = v + 'o'
            if not os.path.exists(vo) or os.path.getmtime(vo) < os.path.getmtime(v):
                r = core.coqc(core.COQ_THEORY, f + '.v', timeout=600, logical='LT')
                if not r[0]:
                    return False
        return True


def run(tier='quick', replay=None):
    res = core.Result(PID, tier)
    rng = random.Random(core.seed() * 104729 + 20)
    w = core.Work(PID)
    violations = []
    try:
        res.trusted = [
            'Coq 8.16.1 kernel + vm_compute',
            'translator tools/tr_schem.py (sha256 %s)' % core.sha256_file(os.path.join(core.VERIF, 'tools', 'tr_schem.py'))[:16],
            'netlist-hint -> constraint reading, generator, TikZ text parser in checks/c20.py (sha256 %s)' % core.sha256_file(os.path.abspath(__file__))[:16],
            'real-code runner tools/impl_schem.py; positions converted with Fraction(float).limit_denominator(10**6); '
            'TikZ coordinates compared with tolerance 0.0005 (they are printed with 3 decimals)',
            'NOT proved, validated per generated case only: Graph.prune/assign_fixed/assign_stretchy, Lineq.solve (scipy LU), '
            'transistor/K/inamp/fdopamp pin geometry, non-right-angle rotate, offset, mirror/invert, implicit nodes',
        ]
        res.assumptions = ['hint sets are consistent (each generated case carries a witness placement that the verified checker accepts inside Coq)',
                           'theorems constraints_from_hints / place_iff_all_pairs assume size > 0 (lcapy replaces size 0 by 1e-9)',
                           'DAG hypothesis of longest_path_feasible is a rank function (topological height)']
        res.notes = ['PARTIAL: Graph.prune/assign_fixed/assign_stretchy and Lineq.solve are validated per generated schematic, not proved; '
                     'they violate the property in the specific situations recorded in known_findings.json',
                     'a violating placement is a KNOWN finding only when (graph) every violated constraint is a >= of a stretchy component '
                     '[or the one recorded case of a redundant fixed edge between two rigidly positioned nodes], the solve stage alone violates '
                     'lcapy\'s own Coq-validated graph, each violated edge carries a recorded root-cause signature (dangling-path, '
                     'unwalked-neighbour, squeezed-path, rigid-fixed-chain, walk-not-longest-path; from an observation-only trace of which stage positioned each gnode) and every end '
                     'point sits exactly where the documented rule of that stage puts it; (lineq) the LU factor shows a rounding-residue pivot / an '
                     'off-diagonal pivot, or the negative slacks equal the values lcapy warned about.  A violated fixed constraint of the stretch '
                     'stage, a wrong direction, unequal linked coordinates, missing/duplicate positions are always reported as new; shrinking '
                     'keeps the classification key',
                     'not covered: offset=, rotate by non-multiples of 90 (and totals of 270), mirror/invert, implicit/ground nodes, aspect=, '
                     'transistors, K, inamp/fdopamp/RV (pins whose position lcapy rescales by 2*scale/width)']
        if not theory_ready():
            res.failed_obl.append(('theory', 'coq/theory/Layout*.v', 'theory build failed'))
            res.obligations += 1
        # 1. translate + prove
        texts = {}
        tr = geoms = None
        try:
            tr, geoms, skipped = translate_geoms()
            for need in set(BIPOLE_LIKE) | set(k[1] for k in MULTI_KINDS) | set(k[1] for k in SHAPE_KINDS):
                if need not in geoms:
                    raise T.Untranslatable('class %s is no longer translatable: %s' % (need, dict(skipped).get(need, 'missing')))
            for i, msg in enumerate(tr.semantic_errors):
                res.failed_obl.append(('cpt_semantics_%d' % i, 'lcapy/schematics/components/cpt.py', msg))
                res.obligations += 1
            gen_text, names = T.emit_coq(tr, geoms, skipped, BIPOLE_LIKE)
            texts['LayoutGen.v'] = gen_text
            res.extra['classes_translated'] = len(geoms)
            res.extra['classes_not_modelled'] = [c for c, _ in skipped]
        except T.Untranslatable as e:
            res.failed_obl.append(('translate', 'lcapy/schemcpts.py', str(e)))
            res.obligations += 1
            geoms = None
        texts['C20.v'] = open(os.path.join(core.VERIF, 'coq', 'props', 'C20.v')).read()
        for f, t in texts.items():
            w.write(f, t)
        bad = core.gate_text('generated', '\n'.join(texts.values()))
        bad += core.gate_files([os.path.join(core.COQ_THEORY, f) for f in ('Layout.v', 'LayoutPath.v', 'LayoutPlace.v', 'LayoutMulti.v', 'LayoutPrune.v', 'LayoutSolve.v', 'LayoutLineq.v')])
        if bad:
            res.failed_obl.append(('gate', 'generated', '; '.join(bad)))
            res.obligations += 1
        cr = core.coqc_many(w.dir, list(texts), timeout=600)
        res.coq_results(w.dir, cr, texts)
        # theory theorems are obligations of this property too (compiled by setup; count them)
        for f in ('Layout.v', 'LayoutPath.v', 'LayoutPlace.v', 'LayoutMulti.v', 'LayoutPrune.v', 'LayoutSolve.v', 'LayoutLineq.v'):
            n = len(core.obligations_in(open(os.path.join(core.COQ_THEORY, f)).read()))
            res.obligations += n
            if os.path.exists(os.path.join(core.COQ_THEORY, f + 'o')):
                res.discharged += n
        if geoms is None:
            # without the tables nothing can be validated: fall back to the last-resort search with the
            # bipole-only part of the specification
            geoms = {}
        # 2. cases
        if replay:
            cases = [case_from_public(replay['case'])]
        else:
            cases = make_cases(rng, geoms, tier) if geoms else []
        send = [send_of(c, w.dir, graphs=True) for c in cases]
        results = core.run_impl('impl_schem.py', send) if cases else []
        res.programs = len(set(fingerprint(c) for c in cases))
        # 3. evaluate
        evs = {}
        coq_parts = []
        for k, (c, r) in enumerate(zip(cases, results)):
            res.count('method_' + c['method'])
            res.count('kind_' + c.get('_kind', '?'))
            if 'error' in r:
                res.count('impl_error')
                c['_error'] = r['error']
                c['_tb'] = r.get('tb', '')
                c['_frames'] = r.get('frames', [])
                continue
            if c.get('_kind') == 'network':
                try:
                    c['lines'] = r['lines']
                    c['_spec'] = spec_of_netlist(r['lines'])
                except Exception as e:
                    res.failed_obl.append(('read_netlist', c['id'], str(e)))
                    res.obligations += 1
                    continue
            try:
                ev = evaluate(c, r, geoms)
            except (T.Untranslatable, KeyError) as e:
                res.count('not_modelled')
                c['_skipped'] = str(e)
                continue
            ev['tikz'] = tikz_check(r['tikz'], r, name_spec(c['_spec'], r), geoms)
            # the components lcapy built must be the classes the specification reasons about
            ns = name_spec(c['_spec'], r)
            for sc in ns:
                if 'lcls' in sc and sc['lcls'] != sc['cls'] and not (sc['cls'] in ('V', 'I') and sc['lcls'].startswith(sc['cls'])):
                    ev['tikz'].append('component %s is a %s, expected %s' % (sc.get('lname'), sc['lcls'], sc['cls']))
            evs[k] = ev
            text, ids = coq_case(k, c, r, ev, geoms, with_model=True)
            ev['ids'] = ids
            coq_parts.append((k, text))
            for why in ev.get('lineq_table_model', []):
                res.count('lineq_table_model_' + why)
            for why in ev.get('solve_model', []):
                res.count('solve_model_' + (why if why == 'evaluated' else why + '_skipped'))
            nontrivial = len(c['lines']) >= 3
            res.add_case(fingerprint(c), nontrivial,
                         {'lines': c['lines'], 'method': c['method'], 'opts': c['opts'],
                          'positions': {n: [e.get('x'), e.get('y')] for n, e in r['nodes'].items()},
                          'constraints_x': len(ev['cx']), 'constraints_y': len(ev['cy'])} if len(res.samples) < 4 and k % 7 == 3 else None)
            res.count('ncomponents_%02d' % min(len(c['lines']), 15))
            for sc in c['_spec']:
                res.count('cls_' + sc['cls'])
                if sc.get('fixed'):
                    res.count('fixed')
        # 4. verified checker + model inside Coq
        shards = [coq_parts[i:i + 12] for i in range(0, len(coq_parts), 12)]
        fn = []
        for si, sh in enumerate(shards):
            body = CASES_HEADER + ''.join(t for _, t in sh)
            body += 'Definition all_results := %s.\nEval vm_compute in all_results.\n' % ' ++ '.join('r_%d' % k for k, _ in sh)
            w.write('cases_%d.v' % si, body)
            fn.append('cases_%d.v' % si)
        triples = []
        cres = core.coqc_many(w.dir, fn, timeout=900) if fn else {}
        for f, (ok, out, secs) in cres.items():
            tl = parse_triples(out) if ok else None
            if tl is None:
                res.failed_obl.append(('checker_eval', f, out[-700:]))
                res.obligations += 1
            else:
                triples += tl
        res.extra['traces_validated_against_impl'] = sum(1 for k in evs if cases[k]['method'] == 'graph')
        res.extra['coq_case_files'] = len(fn)
        bycase = {}
        for k, t, i in triples:
            if t in (15, 16):
                # solve-stage model vs real solve on a graph with sizes that are not exact in binary: counted only
                res.count('solve_model_inexact_graph_differs')
                continue
            bycase.setdefault(k, {}).setdefault(t, []).append(i)
        # python evaluator and Coq checker must agree (guards the glue)
        for k, ev in evs.items():
            cq = bycase.get(k, {})
            if sorted(cq.get(0, [])) != sorted(ev['fx']) or sorted(cq.get(1, [])) != sorted(ev['fy']):
                if any(f.startswith('cases_') for _, f, _ in res.failed_obl):
                    continue
                res.failed_obl.append(('glue_agreement', cases[k]['id'], 'python evaluation %s/%s vs Coq %s/%s' % (
                    ev['fx'], ev['fy'], cq.get(0, []), cq.get(1, []))))
                res.obligations += 1
        # 5. decide
        failing_cases = []
        tikz_bad = []
        for k, ev in evs.items():
            c = cases[k]
            cq = bycase.get(k, {})
            if cq.get(2) or cq.get(3):
                res.failed_obl.append(('generator_witness', c['id'], 'the generated hints are not satisfied by the generator\'s own positions: %s' % c['lines']))
                res.obligations += 1
                continue
            bad = {}
            if cq.get(0):
                bad['x'] = [list(map(str, ev['cx'][i])) for i in cq[0]]
            if cq.get(1):
                bad['y'] = [list(map(str, ev['cy'][i])) for i in cq[1]]
            if cq.get(4) or ev['nonfinite']:
                bad['positions'] = {'not_exactly_one_coordinate': cq.get(4, []), 'nonfinite': ev['nonfinite']}
            if bad:
                failing_cases.append((k, bad))
                res.count('violating_placement_' + c['method'])
            elif ev['tikz']:
                tikz_bad.append((k, ev['tikz']))
            for t in (5, 6, 7, 8, 9, 10, 11, 12, 13, 14, 17, 18):
                if cq.get(t):
                    what = {5: 'x edges', 6: 'y edges', 7: 'x common nodes', 8: 'y common nodes', 9: 'x longest-path distances', 10: 'y longest-path distances',
                            11: 'x pruned parallel edges (forward/reverse views)', 12: 'y pruned parallel edges (forward/reverse views)',
                            13: 'x solve-stage positions', 14: 'y solve-stage positions',
                            17: 'x lineq constraint table', 18: 'y lineq constraint table'}[t]
                    res.disagreements.append({'case': public_case(c), 'differs': what})
        if tikz_bad:
            tikz_bad.sort(key=lambda t: len(cases[t[0]].get('lines', [])))
            k, probs = tikz_bad[0]
            res.count('tikz_problem_cases', len(tikz_bad))
            res.counterexamples.append({'case': public_case(cases[k]), 'tikz_problems': probs})
            violations.append({'key': 'tikz:' + fingerprint(cases[k]),
                               'what': 'generated TikZ does not contain each node/component once at the computed positions (%d case(s))' % len(tikz_bad),
                               'case': public_case(cases[k]), 'problems': probs, 'tikz': results[k].get('tikz'), 'found_input': True})
        # classification of violating placements by violated-constraint kind and root-cause signature
        if failing_cases:
            classified = {}
            for k, bad in failing_cases:
                c, r = cases[k], results[k]
                sb = spec_bad_of(c, r, geoms)
                if 'positions' in bad:
                    sb['positions'] = bad['positions']
                key, det = classify(c, r, sb)
                classified.setdefault(key, []).append((k, sb, det))
            for key, lst in classified.items():
                # one reproducer per class: the smallest failing schematic, shrunk while it keeps its class
                lst.sort(key=lambda t: len(cases[t[0]].get('lines', [])))
                k, sb, det = lst[0]
                c, r = cases[k], results[k]
                small = shrink(c, geoms, w.dir, rounds=10 if tier == 'quick' else 30, key=key) if 'lines' in c else c
                sdet, ssb, sr = det, sb, r
                if small is not c:
                    r2 = core.run_impl('impl_schem.py', [send_of(small, w.dir, graphs=True)])[0]
                    ok2 = 'error' not in r2 and case_fails(small, r2, geoms)
                    if ok2:
                        ssb = spec_bad_of(small, r2, geoms)
                        k2, sdet = classify(small, r2, ssb)
                        ok2 = (k2 == key)
                        sr = r2
                    if not ok2:
                        small, sdet, ssb, sr = c, det, sb, r
                res.count('class_' + key, len(lst))
                vkey = key if not key.startswith(('placement:', 'positions:')) else '%s:%s' % (key, fingerprint(small))
                res.counterexamples.append({'case': public_case(small), 'violated': ssb, 'class': key, 'instances': len(lst)})
                v = {'key': vkey, 'what': 'real %s placement violates the hint constraints (%d schematic(s) in this run)' % (c['method'], len(lst)),
                     'case': public_case(small), 'violated': ssb,
                     'lcapy_positions': {n: [e.get('x'), e.get('y')] for n, e in sr['nodes'].items()},
                     'original_case': public_case(c) if small is not c else None,
                     'lcapy_said': sr.get('stdout', '')[:400], 'found_input': True,
                     'other_instances': [public_case(cases[t[0]]).get('lines') for t in lst[1:6]],
                     'how': './check C20 --replay <this file>'}
                v.update(sdet)
                violations.append(v)
        # exceptions of the real code on consistent connected input (one violation per kind)
        byid = {c['id']: (c, r) for c, r in zip(cases, results)}
        exc = {}
        for c in cases:
            if c.get('_error') and c.get('_kind') in ('generated', 'corpus', 'probe', 'network', 'replay'):
                sib = byid.get(c['id'][:-len('_lineq')] + '_graph') if c['id'].endswith('_lineq') else None
                sib_ok = c.get('_kind') == 'corpus' or (sib is not None and 'error' not in sib[1])
                last = (c.get('_frames') or [['', '', '']])[-1]
                if c['method'] == 'lineq' and sib_ok and c['_error'].startswith('LinAlgError') and \
                        last[0] == 'schemlineqplacer.py' and last[1] == 'solve' and 'inv(Ur)' in last[2]:
                    # the sub-matrix of "basic" columns picked from the LU factor is singular
                    key = 'Lineq.solve:singular-basis'
                elif 'NetlistIsNone' in c['_error'] and c.get('layout') == 'ladder' and re.fullmatch(r'[A-Za-z]+\([0-9.]+\)', c.get('net', '')):
                    # LadderMaker.__call__ on a network that is a single component
                    key = 'LadderMaker.__call__:single-component'
                else:
                    key = 'exception:%s:%s' % (c['method'], c['_error'].split(':')[0])
                exc.setdefault(key, []).append(c)
        for key, lst in exc.items():
            lst.sort(key=lambda c: len(c.get('lines', [])) if 'lines' in c else 99)
            c = lst[0]
            res.count('exception_' + key, len(lst))
            violations.append({'key': key, 'what': 'real code raised on a consistent netlist (%d case(s)): %s' % (len(lst), c['_error'][:200]),
                               'case': public_case(c), 'traceback': c.get('_tb', '')[-600:], 'found_input': True})
        covered = set(v['key'] for v in violations)
        seen_obl = set()
        for name, f, msg in res.failed_obl:
            if name in seen_obl:
                continue
            seen_obl.add(name)
            violations.append({'key': 'obligation:' + name, 'what': 'Coq obligation / check step %s (%s) no longer checks' % (name, f),
                               'theorem': name, 'file': f, 'message': msg[-800:], 'found_input': False})
        for d in res.disagreements:
            k = 'correspondence:' + d['differs'].replace(' ', '_')
            if k in covered:
                continue
            covered.add(k)
            violations.append({'key': k, 'what': 'hand model LayoutPlace/LayoutPath and the real placer base differ in ' + d['differs'],
                               'case': d['case'], 'found_input': False,
                               'correspondence': 'LT.LayoutPlace.{x,y}edges_of / cnodes / LT.LayoutPath.ldistQ vs SchemPlacerBase._make_graphs / Graph.longest_path'})
        res.rule = ('cases: %d corpus reproducers + generated connected schematics (grid positions first, then hints those positions satisfy; '
                    '2-14 components; two-node kinds %s; multi-pin %s; shapes %s) + one-port networks in horizontal/vertical/ladder layout, each for '
                    'both placers with random node_spacing/scale/cpt_size; non-trivial = at least 3 components; distinct = distinct structural '
                    'fingerprint (method + netlist with nodes renamed)') % (
            len(CORPUS), sorted(set(k[2] for k in TWO_KINDS)), [k[1] for k in MULTI_KINDS], [k[1] for k in SHAPE_KINDS])
        if replay:
            for k, (c, r) in enumerate(zip(cases, results)):
                print('IMPLEMENTATION positions:', {n: (e.get('x'), e.get('y')) for n, e in r.get('nodes', {}).items()} if 'error' not in r else r['error'])
                if k in evs:
                    print('MODEL/CHECKER (Coq) failing x constraints:', [evs[k]['cx'][i] for i in bycase.get(k, {}).get(0, [])],
                          'y:', [evs[k]['cy'][i] for i in bycase.get(k, {}).get(1, [])])
                    print('ORACLE (python, independent reading) failing x:', evs[k]['fx'], 'y:', evs[k]['fy'], 'tikz:', evs[k]['tikz'])
        return core.finish(res, violations)
    finally:
        if not os.environ.get('VERIF_KEEP'):
            w.cleanup()


if __name__ == '__main__':
    sys.exit(run(sys.argv[1] if len(sys.argv) > 1 else 'quick'))
