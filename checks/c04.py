"""C04 - Thevenin and Norton equivalents reproduce the terminal behaviour of the original.

  prove      theory/Thevenin.v          abstract affine networks seen from a port: port_affine, isc_zth, zth_yth,
                                        norton_form, load_invariance(_line), load_divider, ground_indep
             theory/TheveninOnePort.v   series/parallel trees: th_sound, no_sound, th_no_consistent, oneport_load_invariance
             props/C04.v                netlists over the component semantics of Circuit.v: kcl/crel affine, killing =
                                        linear part, net_port_affine ..., mna_port_affine (through the regenerated stamps,
                                        Gen.C01net.mna_sem), probe_* (hand model of kill/apply_test_*/Isc/impedance/
                                        admittance/transfer), thevenin_net_rel, norton_net_rel, net_ground_indep
             props/C04ground.v          ground_at_sol, kcl_sum_zero, ground_wire_equiv: model of _add_ground (W x 0 = index -1); for a floating
                                        netlist the terminal relation is the same whichever node is wired to ground
             props/C04ex.v              impedance_kills_ics_refuted (probe model without IC killing is wrong)
             theory/TheveninDense.v + props/C04cert.v   cert_determined: a left inverse of the killed system matrix, checked by vm_compute per
                                        circuit, implies the well-posedness hypothesis of port_affine
             props/C04mna.v             mna_port_affine: the same through the stamps regenerated from lcapy/mnacpts.py (Gen.C01net.mna_sem)
  correspond generated circuits x ports x loads through the REAL probes (tools/impl_thevenin.py); inside Coq (Qc):
             the model netlist reproduces Lcapy's A and Z, a left inverse certifies well-posedness, and for every probe
             the hand model's netlist (kill + test source / short) is solved by a witness whose port reading equals what
             Lcapy returned (Voc, Isc, impedance, admittance, thevenin().Voc/.Z, norton().Isc/.Y, transfer);
             one-port trees: th / no of the tree model vs .Voc/.Z/.Isc/.Y/.thevenin()/.norton() - s-domain / ivp / dc trees over Qc,
             ac trees (Vac/Iac of one angular frequency + reactive leaves) over Q(i) with every leaf taken at s = j omega,
             dc trees with reactive leaves (C open, L short) for the s = 0 branch
             props/C04evalmodel.v + C04eval.v + generated C04evalGen.v (tools/tr_thevenin.py): the if/elif chain of
             OnePort.thevenin()/norton() as a table; thevenin_eval_point_ok / norton_eval_point_ok (immittance at j omega for
             ac, 0 for dc, as is otherwise), *_source_sel_ok, *_form_ok (Ser(Z1, V1) / Par(Y1, I1) is the Thevenin / Norton line)
  search     independent oracles on Lcapy's own outputs: original+load vs returned model+load solved by Lcapy,
             (u, j) on the Thevenin and Norton lines, Voc = Isc Zth, Zth Yth = 1, same Zth/Voc whichever terminal
             (or other node) is grounded, exact load-line intersection with the Coq-validated model values
"""
import json
import os
import random
import re
import sys
import threading
import time
from fractions import Fraction

sys.path.insert(0, os.path.dirname(os.path.dirname(os.path.abspath(__file__))))
from vlib import core, netgen
sys.path.insert(0, os.path.join(core.VERIF, 'tools'))
import tr_stamps as TS
import tr_thevenin as TT

PID = 'C04'
MANIFEST = {
    'text': 'Coq theorems (any characteristic-0 field, netlists of any length, arbitrary node/branch indices): the physical residuals '
            'kcl/crel of a netlist are affine in the unknowns and zeroing the source parameters (source values and the C v0 / L i0 '
            'initial-condition terms) gives their linear part; hence for a well-posed netlist the realisable port (current, voltage) pairs are '
            'exactly the line u = Voc + Zth i with Voc the open-circuit reading and Zth the unit-test-current reading of the killed netlist '
            '(port_affine), Isc Zth = Voc and Zth Yth = 1, any network with the same two readings - in particular the netlists V(Voc)+Z(Zth) and '
            'I(Isc)|Y(Yth), whose terminal relations are proved - delivers the same (u, j) to ANY load relation (load_invariance), and for netlists '
            'that do not refer to ground the relation is the same whichever node is the reference (ground_indep).  The hand model of the probes '
            '(kill, apply_test_current/voltage_source incl. the removal of sources across the input, Isc+Vshort_, impedance, admittance, transfer) is proved to read these quantities when initial '
            'conditions are killed and refuted when they are kept.  Series/parallel one-port trees of any shape: th/no compute the Thevenin/Norton '
            'pair and the terminal relation is that line.  The branch structure of OnePort.thevenin()/norton() is translated (fail-closed) into a '
            'table and proved to evaluate the immittance at s = j omega for a single-frequency ac source, at s = 0 for a non-zero dc source and to '
            'keep the Laplace-domain immittance otherwise, to keep the matching source component, and to return a network whose terminal relation '
            'is the Thevenin / Norton line (thevenin_eval_point_ok, norton_eval_point_ok, *_source_sel_ok, *_form_ok).  The model is tied to the '
            'working tree on every run by evaluating it inside Coq on the circuits the real code analysed: netlists (dc, transient, ivp, ac) and '
            'one-port trees (s-domain, ivp, dc with and without reactive elements, ac with Vac/Iac sources of one rational angular frequency, '
            'quarter-turn phases and reactive elements, compared over the Gaussian rationals with the tree model taken at s = j omega).',
    'note': 'Trusted: Coq kernel/vm_compute; tools/tr_stamps.py; tools/tr_thevenin.py (the signal-kind predicates is_ac / is_dc / is_superposition '
            'and Expr.subs / Superposition.select themselves are oracles: their effect is checked per generated one-port by the correspondence); spec coq/theory/Circuit.v; hand models props/C04model.v (probes; a killed V source is a 0 V '
            'source instead of a wire; _add_ground = index -1, props/C04ground.v; apply_test_voltage_source removes the independent V sources across '
            'the input, m_remove_vs) validated by correspondence; the checkers are field-generic and run over Qc (dc, transient, ivp, resistive) and over '
            'the Gaussian rationals LT.QcI (ac: one angular frequency, phasors, immittances at s = j omega); witnesses and the left-inverse certificate are '
            'computed by the harness (exact rationals / Gaussian rationals) and CHECKED in Coq (cert_determined turns the certificate into the '
            'well-posedness hypothesis); sympy linear solve, node merging and the Superposition/Laplace/phasor bookkeeping of Lcapy are modelled as oracles; '
            'models whose source was passed through a numerical inverse Laplace transform (floating-point coefficients) are not compared; not modelled: '
            'mutual inductance in ac, dependent/ammeter/transformer branches across a transfer() input, several signal kinds at once, the ladder shortcut '
            'of transfer() itself (compared against the documented route and the model, not modelled).  Findings: see known_findings.json (open: '
            'NetlistOpsMixin.transfer:ladder-unplaced-components).',
    'technique': 'Coq proof (linear algebra over an abstract field, induction over netlists and trees) + in-Coq certificate checking of the probes against the MNA model regenerated from source + load-invariance search oracle',
}

# (own copies: the C01 helpers are being generalised independently)
KINDS = {'dc': 'KDc', 's': 'KS', 'ivp': 'KIvp', 'laplace': 'KLaplace', 'transient': 'KTransient', 't': 'KT', 'time': 'KTime', 'ac': 'KAc'}
CNAMES = ['RC', 'L', 'V', 'AM', 'I', 'VCVS', 'VCCS', 'CCCS', 'CCVS', 'K', 'TF', 'GY', 'TL', 'TPA', 'TPB', 'TPG', 'TPH',
          'TPY', 'TPZ', 'TR', 'SPpp', 'SPpm', 'SPppp', 'SPpmm', 'SPppm', 'RV', 'Dummy']
PNAMES = ['pY', 'pZ', 'pIsc', 'pVoc', 'pArg0', 'pArg1', 'pAlpha', 'pEps', 'pA11', 'pA12', 'pA21', 'pA22',
          'pY11', 'pY12', 'pY21', 'pY22', 'pZM0', 'pZM1', 'pZL1', 'pZL2', 'pK', 'pZM2', 'pI01', 'pI02']


def bl(x):
    return 'true' if x else 'false'


def craw_of(e, ids, kindc, owner, eps, fld='QcF'):
    """Coq `GRaw` literal (Gen.C04model.graw) for one element of the worker dump, or None if unsupported"""
    if owner not in CNAMES:
        return None
    pr = dict(e['params'])
    pr['pEps'] = eps
    zero = q(0, fld)
    arms = ['%s => %s' % (pn, q(pr[pn], fld)) for pn in PNAMES if pr.get(pn) is not None]
    if not arms:
        par = '(fun _ => %s)' % zero
    elif len(arms) == len(PNAMES):
        par = '(fun n => match n with %s end)' % ' | '.join(arms)
    else:
        par = '(fun n => match n with %s | _ => %s end)' % (' | '.join(arms), zero)
    n = (e['nidx'] + [-1, -1, -1, -1])[:4]
    cidx = (e.get('cidx') or [-1, -1])
    ctrl = ids.get(e.get('ctrl'), 0)
    typ = {'C': 'TyC', 'm': 'TyM'}.get(e['type'], 'TyOtherType')
    info = '(CI %d %s %s %s %d)' % (ids[e['name']], bl(e['need_branch_current']), bl(e['need_extra_branch_current']),
                                    bl(e['is_current_controlled']), ctrl)
    return ('(GRaw %s c%s %s %s %s (%d) (%d) (%d) (%d) (%d) (%d) %d %d %s %s %s %s %s)' % (
        fld, owner, info, kindc, typ, n[0], n[1], n[2], n[3], cidx[0], cidx[1],
        ids.get(e.get('L1'), 0), ids.get(e.get('L2'), 0),
        bl(e.get('has_ic')), bl(e.get('ctrl_is_vsrc', False)), bl(e['nargs'] > 1), bl(e.get('tp_has_src')), par))


KINDTAG = {'dc': 'KDc', 'transient': 'KTransient', 'ivp': 'KIvp', 'none': 'KTransient', 'laplace': 'KLaplace', 'ac': 'KAc'}
FOUR = ('E', 'G', 'TF', 'GY', 'TP')


class G:
    """exact Gaussian rational (ac analyses); interoperates with int / Fraction"""
    __slots__ = ('re', 'im')

    def __init__(self, re_=0, im_=0):
        self.re, self.im = Fraction(re_), Fraction(im_)

    @staticmethod
    def of(x):
        return x if isinstance(x, G) else G(x, 0)

    def __add__(self, o):
        o = G.of(o)
        return G(self.re + o.re, self.im + o.im)
    __radd__ = __add__

    def __neg__(self):
        return G(-self.re, -self.im)

    def __sub__(self, o):
        return self + (-G.of(o))

    def __rsub__(self, o):
        return G.of(o) - self

    def __mul__(self, o):
        o = G.of(o)
        return G(self.re * o.re - self.im * o.im, self.re * o.im + self.im * o.re)
    __rmul__ = __mul__

    def __truediv__(self, o):
        o = G.of(o)
        d = o.re * o.re + o.im * o.im
        return self * G(o.re / d, -o.im / d)

    def __rtruediv__(self, o):
        return G.of(o) / self

    def __eq__(self, o):
        if not isinstance(o, (G, Fraction, int)):
            return False
        o = G.of(o)
        return self.re == o.re and self.im == o.im

    def __ne__(self, o):
        return not self.__eq__(o)

    def __hash__(self):
        return hash((self.re, self.im))

    def __repr__(self):
        return '%s|%s' % (self.re, self.im)
    __str__ = __repr__


def num(x):
    """'p/q' -> Fraction, 're|im' -> G"""
    if isinstance(x, (G, Fraction, int)):
        return x
    x = str(x)
    if '|' in x:
        a, _, b = x.partition('|')
        return G(Fraction(a), Fraction(b))
    return Fraction(x)


def q(x, fld='QcF'):
    """Coq literal in QcF or in the Gaussian rationals QcIF"""
    if fld == 'QcIF':
        g = G.of(num(x))
        return '(qi (%d) %d (%d) %d)' % (g.re.numerator, g.re.denominator, g.im.numerator, g.im.denominator)
    return core.qc_lit(x)


def log(msg):
    if os.environ.get('VERIF_VERBOSE'):
        sys.stderr.write('[%s] %s\n' % (time.strftime('%H:%M:%S'), msg))
        sys.stderr.flush()


# ---- netlist text helpers -----------------------------------------------------------
def node_positions(toks):
    nm = toks[0]
    if nm[0] == 'K':
        return []
    if nm.startswith(FOUR) and not nm.startswith('TR'):
        return [1, 2, 3, 4]
    return [1, 2]


def nodes_of(lines):
    out = []
    for l in lines:
        toks = l.split(';')[0].split()
        for i in node_positions(toks):
            if i < len(toks) and toks[i] not in out:
                out.append(toks[i])
    return out


def rename_node(lines, old, new):
    out = []
    for l in lines:
        toks = l.split()
        for i in node_positions(toks):
            if i < len(toks) and toks[i] == old:
                toks[i] = new
        out.append(' '.join(toks))
    return out


def strip_common_mode(lines):
    """E name p m cp cm Ad Ac -> drop Ac (not shift invariant)"""
    out = []
    for l in lines:
        toks = l.split()
        if toks[0][0] == 'E' and len(toks) > 6:
            toks = toks[:6]
        out.append(' '.join(toks))
    return out


# ---- loads: netlist lines (terminals P_, M_), and the textbook line u = E + Zl j at s0 ---
def gen_load(rng, profile, s0, force=None, omega=None):
    s = Fraction(s0)
    r = netgen.val(rng)
    kind = force or rng.choice(['R', 'RC', 'RL', 'RLC', 'VR'])
    if profile == 'ac':
        # phasor analysis at the circuit's angular frequency: s stands for j omega (a source in the load would make Lcapy
        # add two phasors symbolically - slow - so ac loads are passive)
        s = G(0, Fraction(omega))
        kind = force or rng.choice(['R', 'RC', 'RL', 'RLC'])
    f = netgen.fs
    lines = ['Rld_ P_ xl1_ %s' % f(r)]
    E, Zl = Fraction(0), (G(r) if profile == 'ac' else r)
    last = 'xl1_'
    dc = profile == 'dc'
    if kind in ('RL', 'RLC'):
        lv = netgen.val(rng)
        i0 = None
        if profile == 'ivp' and rng.random() < 0.5:
            i0 = netgen.val(rng, -3, 3)
        nxt = 'xl2_' if kind == 'RLC' else 'M_'
        lines.append('Lld_ %s %s %s%s' % (last, nxt, f(lv), '' if i0 is None else ' ' + f(i0)))
        if not dc:
            Zl += s * lv
            if i0 is not None:
                E += -lv * i0            # u_L = s L j - L i0
        last = nxt
    if kind in ('RC', 'RLC'):
        cv = netgen.val(rng)
        v0 = None
        if profile == 'ivp' and rng.random() < 0.5:
            v0 = netgen.val(rng, -3, 3)
        lines.append('Cld_ %s M_ %s%s' % (last, f(cv), '' if v0 is None else ' ' + f(v0)))
        if dc:
            Zl = None                    # open circuit: j = 0
        else:
            Zl += 1 / (s * cv)
            if v0 is not None:
                E += v0 / s
    if kind == 'VR':
        v = netgen.val(rng, -5, 5) or Fraction(2)
        lines.append('Vld_ xl1_ M_ %s %s' % ('dc' if dc else 'step', f(v)))
        E += v if dc else v / s
    if kind == 'R':
        lines[0] = 'Rld_ P_ M_ %s' % f(r)
    return {'kind': kind, 'lines': lines, 'cur': 'Rld_', 'E': str(E), 'Zl': None if Zl is None else str(Zl)}


# ---- one-port trees --------------------------------------------------------------------
AC_PHASES = {'0': (1, 0), 'pi/2': (0, 1), '-pi/2': (0, -1), 'pi': (-1, 0)}     # quarter turns: every phasor is a Gaussian rational


def gen_tree(rng, profile, depth=0, omega=None):
    if depth >= 3 or (depth > 0 and rng.random() < 0.45):
        r = rng.random()
        if profile == 'dc':
            ks = ['R', 'R', 'R', 'V', 'I']
        elif profile == 'dcx':
            ks = ['R', 'R', 'C', 'L', 'V', 'I']
        elif profile == 'ac':
            ks = ['R', 'R', 'C', 'L', 'C', 'L', 'V', 'I']
        else:
            ks = ['R', 'R', 'R', 'C', 'L', 'V', 'I']
        k = rng.choice(ks)
        if profile == 'ac' and k in ('V', 'I'):
            return [k, 'ac', str(netgen.val(rng, -5, 5) or Fraction(3)), rng.choice(['0', 'pi/2', '-pi/2', 'pi', 'pi/2', '-pi/2']), str(omega)]
        if k == 'R':
            return ['R', str(netgen.val(rng))]
        if k in ('C', 'L'):
            ic = None
            if profile == 'ivp' and rng.random() < 0.5:
                ic = str(netgen.val(rng, -4, 4))
            return [k, str(netgen.val(rng)), ic]
        return [k, 'dc' if profile in ('dc', 'dcx') else 'step', str(netgen.val(rng, -5, 5) or Fraction(3))]
    n = rng.randint(2, 3)
    return [rng.choice(['ser', 'par']), [gen_tree(rng, profile, depth + 1, omega) for _ in range(n)]]


def tree_valid(t, top=True):
    """no two ideal voltage sources in parallel / current sources in series (ill-posed), at least one non-source"""
    k = t[0]
    if k in ('ser', 'par'):
        kids = t[1]
        if k == 'par' and sum(1 for c in kids if c[0] == 'V') > 0 and len(kids) > 1:
            return False
        if k == 'ser' and sum(1 for c in kids if c[0] == 'I') > 0 and len(kids) > 1:
            return False
        return all(tree_valid(c, False) for c in kids)
    return True


def tree_lines(t, a, b, cnt, out):
    k = t[0]
    def nm(pfx):
        cnt[pfx] = cnt.get(pfx, 0) + 1
        return '%s%d' % (pfx, cnt[pfx])
    f = netgen.fs
    if k == 'R':
        out.append('%s %s %s %s' % (nm('R'), a, b, f(Fraction(t[1]))))
    elif k in ('C', 'L'):
        out.append('%s %s %s %s%s' % (nm(k), a, b, f(Fraction(t[1])), '' if t[2] is None else ' ' + f(Fraction(t[2]))))
    elif k in ('V', 'I') and t[1] == 'ac':
        out.append('%s %s %s ac %s {%s} %s' % (nm(k), a, b, f(Fraction(t[2])), t[3], f(Fraction(t[4]))))
    elif k in ('V', 'I'):
        out.append('%s %s %s %s %s' % (nm(k), a, b, t[1], f(Fraction(t[2]))))
    elif k == 'ser':
        cur = a
        for i, c in enumerate(t[1]):
            nxt = b if i == len(t[1]) - 1 else nm('n') + '_'
            tree_lines(c, cur, nxt, cnt, out)
            cur = nxt
    else:
        for c in t[1]:
            tree_lines(c, a, b, cnt, out)


def leaf_line(t, s, dc):
    """a u + b j = c  (u across + to -, j delivered out of +)"""
    k = t[0]
    if k == 'R':
        return (Fraction(1), Fraction(t[1]), Fraction(0))
    if k == 'C':
        if dc:
            return (Fraction(0), Fraction(1), Fraction(0))
        c = Fraction(t[1])
        v0 = Fraction(t[2]) if t[2] is not None else Fraction(0)
        return (s * c, Fraction(1), c * v0)
    if k == 'L':
        if dc:
            return (Fraction(1), Fraction(0), Fraction(0))
        lv = Fraction(t[1])
        i0 = Fraction(t[2]) if t[2] is not None else Fraction(0)
        return (Fraction(1), s * lv, -lv * i0)
    if t[1] == 'ac':
        re_, im_ = AC_PHASES[t[3]]
        v = G(Fraction(t[2]) * re_, Fraction(t[2]) * im_)       # phasor A exp(j phi)
    else:
        v = Fraction(t[2]) if dc else Fraction(t[2]) / s
    if k == 'V':
        return (Fraction(1), Fraction(0), v)
    return (Fraction(0), Fraction(1), v)


def tree_coq(t, s, dc, fld='QcF'):
    if t[0] in ('ser', 'par'):
        return '(%s [%s])' % ('Ser' if t[0] == 'ser' else 'Par', '; '.join(tree_coq(c, s, dc, fld) for c in t[1]))
    a, b, c = leaf_line(t, s, dc)
    return '(Leaf (K:=%s) %s %s %s)' % (fld, q(a, fld), q(b, fld), q(c, fld))


def tree_count(t, kinds):
    if t[0] in ('ser', 'par'):
        return sum(tree_count(c, kinds) for c in t[1])
    return 1 if t[0] in kinds else 0


def tree_has_src(t):
    if t[0] in ('ser', 'par'):
        return any(tree_has_src(c) for c in t[1])
    return t[0] in ('V', 'I')


def tree_ic_variants(t):
    """the tree with every subset of its initial conditions dropped (C(c, v0) -> C(c), L(l, i0) -> L(l))"""
    import itertools
    paths = []

    def walk(t, path):
        if t[0] in ('ser', 'par'):
            for i, c in enumerate(t[1]):
                walk(c, path + (i,))
        elif t[0] in ('C', 'L') and t[2] is not None:
            paths.append(path)
    walk(t, ())

    def drop(t, path, sel):
        if t[0] in ('ser', 'par'):
            return [t[0], [drop(c, path + (i,), sel) for i, c in enumerate(t[1])]]
        if path in sel:
            return [t[0], t[1], None]
        return t
    out = []
    if len(paths) > 8:
        paths = paths[:8]
    for k in range(1, len(paths) + 1):
        for sel in itertools.combinations(paths, k):
            out.append(drop(t, (), set(sel)))
    return out


def tree_has_ic(t):
    if t[0] in ('ser', 'par'):
        return any(tree_has_ic(c) for c in t[1])
    return t[0] in ('C', 'L') and t[2] is not None


def tree_eval(t, s, dc, buggy=False, ext=False):
    """exact (th, no) pairs: th = (Voc, Z) or None, no = (Isc, Y) or None.
    buggy=True reproduces ParSer.Voc / ParSer.Isc returning 0 when no INDEPENDENT source is below (initial
    conditions ignored); ext=True also follows ideal sources / open circuits through series and parallel
    combinations (a series chain containing an open circuit is an open circuit).  Both are used only to
    fingerprint known findings, never for a verdict."""
    def has_src(t):
        if t[0] in ('ser', 'par'):
            return any(has_src(c) for c in t[1])
        return t[0] in ('V', 'I')
    k = t[0]
    if k not in ('ser', 'par'):
        a, b, c = leaf_line(t, s, dc)
        return ((c / a, b / a) if a != 0 else None, (c / b, a / b) if b != 0 else None)
    kids = [tree_eval(c, s, dc, buggy, ext) for c in t[1]]
    if k == 'ser':
        if any(x[0] is None for x in kids):
            if ext:
                forced = [x[1][0] for x in kids if x[0] is None and x[1] is not None and x[1][1] == 0]
                if forced and len(set(forced)) == 1 and len(forced) == sum(1 for x in kids if x[0] is None):
                    return (None, (forced[0], Fraction(0)))
            return (None, None)
        V = sum(x[0][0] for x in kids)
        Z = sum(x[0][1] for x in kids)
        no = (V / Z, 1 / Z) if Z != 0 else None
        if buggy and no is not None and not has_src(t):
            no = (Fraction(0), no[1])
        return ((V, Z), no)
    if any(x[1] is None for x in kids):
        if ext:
            forced = [x[0][0] for x in kids if x[1] is None and x[0] is not None and x[0][1] == 0]
            if forced and len(set(forced)) == 1 and len(forced) == sum(1 for x in kids if x[1] is None):
                return ((forced[0], Fraction(0)), None)
        return (None, None)
    I = sum(x[1][0] for x in kids)
    Y = sum(x[1][1] for x in kids)
    th = (I / Y, 1 / Y) if Y != 0 else None
    if buggy and th is not None and not has_src(t):
        th = (Fraction(0), th[1])
    return (th, (I, Y))


# ---- exact linear algebra --------------------------------------------------------------
def solve(A, b):
    n = len(A)
    M = [list(A[i]) + [b[i]] for i in range(n)]
    for c in range(n):
        piv = None
        for r in range(c, n):
            if M[r][c] != 0:
                piv = r
                break
        if piv is None:
            return None
        M[c], M[piv] = M[piv], M[c]
        pv = M[c][c]
        M[c] = [x / pv for x in M[c]]
        for r in range(n):
            if r != c and M[r][c] != 0:
                f = M[r][c]
                M[r] = [x - f * y for x, y in zip(M[r], M[c])]
    return [M[i][n] for i in range(n)]


def inverse(A):
    n = len(A)
    M = [list(A[i]) + [Fraction(int(i == j)) for j in range(n)] for i in range(n)]
    for c in range(n):
        piv = None
        for r in range(c, n):
            if M[r][c] != 0:
                piv = r
                break
        if piv is None:
            return None
        M[c], M[piv] = M[piv], M[c]
        pv = M[c][c]
        M[c] = [x / pv for x in M[c]]
        for r in range(n):
            if r != c and M[r][c] != 0:
                f = M[r][c]
                M[r] = [x - f * y for x, y in zip(M[r], M[c])]
    return [row[n:] for row in M]


def border(A, e):
    n = len(A)
    return [list(A[i]) + [e[i]] for i in range(n)] + [list(e) + [Fraction(0)]]


# ---- case generation ---------------------------------------------------------------------
FLOAT_ALLOW = ['E', 'G', 'H', 'F', 'TF', 'GY', 'K', 'W', 'AM', 'dup']
NET_ALLOW = ['E', 'G', 'H', 'F', 'TF', 'GY', 'K', 'W', 'AM', 'dup', 'TPA', 'TPY', 'TR']
AC_ALLOW = ['E', 'G', 'H', 'F', 'TF', 'GY', 'W', 'AM', 'dup']      # (mutual inductance at j omega needs a square root branch: left to C01/C14)

CORPUS_NETS = [
    # DESIGN 6-F2
    {'netlist': ['V1 1 0 step 5', 'R1 1 2 2', 'C1 2 0 3 4'], 'port': ['2', '0'], 'port2': ['1', '0'], 'profile': 'ivp', 's0': '3/2'},
    {'netlist': ['V1 1 0 step 5', 'R1 1 2 2', 'C1 2 0 3 4', 'R2 2 3 4', 'L1 3 0 2 1'], 'port': ['2', '3'], 'port2': ['3', '0'], 'profile': 'ivp', 's0': '5/3'},
    {'netlist': ['V1 1 0 dc 5', 'R1 1 2 2', 'C1 2 0 3', 'R2 2 3 4', 'L1 3 0 2'], 'port': ['2', '3'], 'port2': ['3', '0'], 'profile': 'dc', 's0': '3/2'},
    {'netlist': ['V1 1 0 step 5', 'R1 1 2 2', 'E1 3 0 2 0 3', 'R2 3 4 1', 'C1 4 0 2', 'F1 4 0 V1 2'], 'port': ['4', '2'], 'port2': ['3', '0'], 'profile': 's', 's0': '7/4'},
    {'netlist': ['V1 1 2 step 5', 'R1 1 3 2', 'R2 3 2 4', 'C1 3 4 2', 'R3 4 2 1'], 'port': ['3', '4'], 'profile': 's', 's0': '3/2', 'floating': True},
]


# one-port trees whose only excitation is an initial condition nested inside a sub-network of the other kind
CORPUS_TREES = [
    ['par', [['ser', [['C', '1', '5'], ['R', '2']]], ['R', '3']]],
    ['ser', [['par', [['L', '2', '1'], ['R', '3']]], ['R', '4']]],
    ['par', [['ser', [['R', '2'], ['par', [['C', '3', '4'], ['R', '5']]]]], ['R', '7']]],
    ['par', [['ser', [['C', '3', '4'], ['R', '2']]], ['ser', [['L', '5', '1'], ['V', 'step', '6']]]]],
]


# ac one-ports (a single angular frequency, at least one reactive element): OnePort.thevenin()/norton() take the immittance at s = j omega
CORPUS_AC_TREES = [
    (['par', [['ser', [['V', 'ac', '1', '0', '3'], ['C', '2', None]]], ['R', '3']]], '3'),
    (['ser', [['par', [['I', 'ac', '2', 'pi/2', '3/2'], ['L', '2', None]]], ['R', '1']]], '3/2'),
    (['par', [['ser', [['V', 'ac', '-3', '-pi/2', '2'], ['L', '1/2', None], ['R', '2']]], ['ser', [['C', '1/3', None], ['R', '1']]]]], '2'),
    (['ser', [['par', [['I', 'ac', '5/2', 'pi', '1/2'], ['C', '3', None], ['R', '2']]], ['L', '3/2', None]]], '1/2'),
]


def ac_tree_case(rng, t, om, tags):
    lines = []
    tree_lines(t, '1', '0', {}, lines)
    ld = gen_load(rng, 'ac', '1', omega=om)
    return {'mode': 'oneport', 'tree': t, 'netlist': lines, 'profile': 'ac', 'omega': str(om), 's0': '1', 'tags': tags,
            'load': ld['lines'], 'load_cur': ld['cur'], 'loadline': {'kind': ld['kind'], 'E': ld['E'], 'Zl': ld['Zl']}}


def gen_ac_trees(tier):
    """own random stream: the cases of the other families stay what they were for a given VERIF_SEED"""
    rng = random.Random(core.seed() * 7919 + 404)
    n_ac = int(os.environ.get('VERIF_NACTREES', 14 if tier == 'quick' else 120))
    out = [ac_tree_case(rng, t, om, ['oneport', 'ac', 'corpus']) for t, om in CORPUS_AC_TREES]
    k = tries = 0
    while k < n_ac and tries < 60 * n_ac:
        tries += 1
        om = Fraction(rng.randint(1, 7), rng.choice([1, 1, 2, 3]))
        t = gen_tree(rng, 'ac', omega=om)
        if t[0] not in ('ser', 'par') or not tree_valid(t):
            continue
        nsrc, nreact = tree_count(t, ('V', 'I')), tree_count(t, ('C', 'L'))
        if not (1 <= nsrc <= 2 and 1 <= nreact <= 3):
            continue
        # both source kinds: alternate which one the (first) source is
        if nsrc == 1 and tree_count(t, ('V',)) != (k % 2):
            continue
        out.append(ac_tree_case(rng, t, om, ['oneport', 'ac']))
        k += 1
    return out


def gen_dcx_trees(tier):
    """dc one-ports WITH reactive elements (own random stream): thevenin()/norton() take the immittance at s = 0"""
    rng = random.Random(core.seed() * 6007 + 405)
    n = int(os.environ.get('VERIF_NDCXTREES', 8 if tier == 'quick' else 60))
    out = []
    k = tries = 0
    while k < n and tries < 60 * n:
        tries += 1
        t = gen_tree(rng, 'dcx')
        if t[0] not in ('ser', 'par') or not tree_valid(t):
            continue
        if not (1 <= tree_count(t, ('V', 'I')) <= 2 and 1 <= tree_count(t, ('C', 'L')) <= 2):
            continue
        th, no = tree_eval(t, Fraction(1), True)
        if th is None and no is None:
            continue            # open / short at dc: nothing to compare
        lines = []
        tree_lines(t, '1', '0', {}, lines)
        s0 = '%d/%d' % (rng.randint(1, 9), rng.choice([1, 2, 3]))
        ld = gen_load(rng, 'dc', s0, force=rng.choice(['R', 'VR', 'RL']))
        out.append({'mode': 'oneport', 'tree': t, 'netlist': lines, 'profile': 'dc', 's0': s0, 'tags': ['oneport', 'dc', 'dc-reactive'],
                    'load': ld['lines'], 'load_cur': ld['cur'], 'loadline': {'kind': ld['kind'], 'E': ld['E'], 'Zl': ld['Zl']}})
        k += 1
    return out


def gen_cases(rng, tier):
    n_net = int(os.environ.get('VERIF_NCASES', 72 if tier == 'quick' else 800))
    n_tree = int(os.environ.get('VERIF_NTREES', 28 if tier == 'quick' else 300))
    cases = []
    for c in CORPUS_NETS:
        c = dict(c)
        c['mode'] = 'net'
        c['tags'] = ['corpus']
        cases.append(c)
    profiles = ['s', 'ivp', 'dc', 'ac', 's', 'ivp', 'dc', 'ac', 's', 'ivp']
    for i in range(n_net):
        prof = profiles[i % len(profiles)]
        floating = (i % 4 == 3)
        nl = netgen.gen_netlist(rng, prof, allow=AC_ALLOW if prof == 'ac' else (FLOAT_ALLOW if floating else NET_ALLOW))
        lines = list(nl['lines'])
        tags = list(nl['tags'])
        if floating:
            lines = strip_common_mode(rename_node(lines, '0', 'g0'))
            tags.append('floating')
        nodes = nodes_of(lines)
        if len(nodes) < 2:
            continue
        p, m = rng.sample(nodes, 2)
        c = {'mode': 'net', 'netlist': lines, 'port': [p, m], 'profile': prof, 'tags': tags, 'floating': floating,
             's0': '%d/%d' % (rng.randint(1, 9), rng.choice([1, 2, 3, 4]))}
        if len(nodes) >= 3 and rng.random() < 0.7:
            c['port2'] = rng.sample(nodes, 2)
        cases.append(c)
    for c in cases:
        if c['mode'] != 'net':
            continue
        om = None
        if c['profile'] == 'ac':
            om = '1'
            for l_ in c['netlist']:
                t_ = l_.split()
                if len(t_) >= 7 and t_[3] == 'ac':
                    om = t_[6].strip('{}')
        ld = gen_load(rng, c['profile'], c['s0'], omega=om)
        c['load'] = ld['lines']
        c['load_cur'] = ld['cur']
        c['loadline'] = {'kind': ld['kind'], 'E': ld['E'], 'Zl': ld['Zl']}
        if c.get('floating'):
            nodes = nodes_of(c['netlist'])
            others = [x for x in nodes if x not in c['port']]
            c['swap'] = True
            c['ground'] = [c['port'][0]] + ([rng.choice(others)] if others else [])
    for t in CORPUS_TREES:
        lines = []
        tree_lines(t, '1', '0', {}, lines)
        ld = gen_load(rng, 'ivp', '5/2', force='VR')
        cases.append({'mode': 'oneport', 'tree': t, 'netlist': lines, 'profile': 'ivp', 's0': '5/2', 'tags': ['oneport', 'ivp', 'corpus'],
                      'load': ld['lines'], 'load_cur': ld['cur'], 'loadline': {'kind': ld['kind'], 'E': ld['E'], 'Zl': ld['Zl']}})
    k = 0
    tries = 0
    while k < n_tree and tries < 20 * n_tree:
        tries += 1
        prof = ['s', 'ivp', 's', 'dc'][k % 4]
        t = gen_tree(rng, prof)
        if t[0] not in ('ser', 'par') or not tree_valid(t):
            continue
        lines = []
        tree_lines(t, '1', '0', {}, lines)
        s0 = '%d/%d' % (rng.randint(1, 9), rng.choice([1, 2, 3]))
        ld = gen_load(rng, prof, s0, force='VR' if (not tree_has_src(t) and rng.random() < 0.7) else None)
        cases.append({'mode': 'oneport', 'tree': t, 'netlist': lines, 'profile': prof, 's0': s0, 'tags': ['oneport', prof],
                      'load': ld['lines'], 'load_cur': ld['cur'], 'loadline': {'kind': ld['kind'], 'E': ld['E'], 'Zl': ld['Zl']}})
        k += 1
    cases += gen_ac_trees(tier)
    cases += gen_dcx_trees(tier)
    return cases


# ---- Coq items -----------------------------------------------------------------------------
HEADER = ('Require Import LT.FieldSec LT.QcI LT.Circuit LT.MNA LT.TheveninOnePort LT.TheveninDense Gen.StampsGen Gen.C01model Gen.C04model.\n'
          'Local Open Scope Z_scope.\n')


def fr(x):
    return None if (x is None or isinstance(x, dict)) else num(x)


def raws_of(d, tr, res, eps='0', fld='QcF'):
    kindc = KINDS.get(d['kind'])
    if kindc is None:
        return None
    ids = {e['name']: i for i, e in enumerate(d['elements'])}
    raws = []
    for e in d['elements']:
        owner = None
        for c in e['mro']:
            o = tr.stamp_owner(c) if c in tr.bases else None
            if o:
                owner = o
                break
        r = craw_of(e, ids, kindc, owner, eps, fld) if owner else None
        if r is None:
            res.count('unsupported_class_' + str(e['cls']))
            return None
        e['_owner'] = owner
        raws.append(r)
    return raws


def mat_of(d):
    A = d['A']
    Z = d['Z']
    if any(x is None for row in A for x in row) or any(x is None for x in Z):
        return None, None
    return [[num(x) for x in row] for row in A], [num(x) for x in Z]


def src_part(d, nn):
    """contribution of the independent V / I sources to the right-hand side (harness side, only used to build the
    witness of the 'initial conditions kept' diagnosis; the witness is checked in Coq)"""
    n = nn + len(d['unknown_branch_currents'])
    z = [Fraction(0)] * n
    ub = d['unknown_branch_currents']
    for e in d['elements']:
        o = e.get('_owner')
        if o == 'V' and e['name'] in ub and e['params'].get('pVoc') is not None:
            z[nn + ub.index(e['name'])] += num(e['params']['pVoc'])
        elif o == 'I' and e['params'].get('pIsc') is not None:
            i = num(e['params']['pIsc'])
            n1, n2 = e['nidx'][0], e['nidx'][1]
            if n1 >= 0:
                z[n1] += i
            if n2 >= 0:
                z[n2] -= i
    return z


def xs(x, fld='QcF'):
    return '[%s]' % '; '.join(q(v, fld) for v in x)


def build_net_items(ci, case, wr, tr, res):
    """-> (items, info); item = dict(label, probe, role, defn, expr)"""
    items = []
    info = {'model': {}}
    kind = wr.get('kind')
    if kind not in KINDTAG or 'dumps' not in wr:
        res.count('net_kind_' + str(kind))
        return items, info
    kd = KINDTAG[kind]
    fld = 'QcIF' if kind == 'ac' else 'QcF'     # ac: phasors, Gaussian rationals
    dumps = wr['dumps']
    d_l = dumps.get('lap') or dumps.get('orig')
    d_o = dumps.get('orig') or d_l
    api = wr['api']
    s0 = Fraction(case['s0'])
    scale = s0 if kind == 'dc' else Fraction(1)        # reported X(s0) = d/s0 for a dc value d
    p, m = case['port']
    sets = {}
    for tag, d in (('o', d_o), ('l', d_l)):
        if d is d_o and tag == 'l':
            sets['l'] = sets['o']
            continue
        raws = raws_of(d, tr, res, fld=fld)
        A, Z = mat_of(d)
        if raws is None or A is None:
            res.count('net_unsupported_or_irrational')
            return items, info
        nn = len(d['node_list']) - 1
        mm = len(d['unknown_branch_currents'])
        name = 'es_%d_%s' % (ci, tag)
        defn = 'Definition %s : list (graw %s) := [%s].' % (name, fld, ';\n  '.join(raws))
        if p not in d['node_index'] or m not in d['node_index']:
            res.count('net_port_node_missing')
            return items, info
        pi, mi = d['node_index'][p], d['node_index'][m]
        e = [Fraction(0)] * (nn + mm)
        if pi >= 0:
            e[pi] += 1
        if mi >= 0:
            e[mi] -= 1
        sets[tag] = dict(d=d, A=A, Z=Z, nn=nn, mm=mm, name=name, defn=defn, pi=pi, mi=mi, e=e)
        # the model netlist assembles to Lcapy's matrix and right-hand side
        ents = []
        for r in range(nn + mm):
            for c in range(nn + mm):
                blk = ('MG' if c < nn else 'MB') if r < nn else ('MC' if c < nn else 'MD')
                ents.append('(%s, %d, %d, %s)' % (blk, r if r < nn else r - nn, c if c < nn else c - nn, q(A[r][c], fld)))
            ents.append('(%s, %d, 0, %s)' % ('MIs' if r < nn else 'MEs', r if r < nn else r - nn, q(Z[r], fld)))
        items.append(dict(label='%d/entries_%s' % (ci, tag), probe='entries', role='main', defn=defn,
                          expr='g_entries %s %s [%s]' % (fld, name, '; '.join(ents))))
        res.count('entries_compared', len(ents))
    so, sl = sets['o'], sets['l']
    if pi_eq(so) or pi_eq(sl):
        res.count('net_port_nodes_merged')
        return items, info
    has_ic = kind == 'ivp' and any(e_.get('has_ic') for e_ in sl['d']['elements'])
    info['has_ic'] = has_ic

    def pvx(s_, x, a=None, b=None):
        a = s_['pi'] if a is None else a
        b = s_['mi'] if b is None else b
        return (x[a] if a >= 0 else 0) - (x[b] if b >= 0 else 0)

    def add(probe, role, s_, fn, args, x, val):
        items.append(dict(label='%d/%s%s' % (ci, probe, '' if role == 'main' else '~' + role), probe=probe, role=role, defn=s_['defn'],
                          expr='%s %s %d%%nat %d%%nat %s %s %s' % (fn.replace('@F', fld), s_['name'], s_['nn'], s_['mm'], args, xs(x, fld), q(val, fld))))

    pm = lambda s_: '(%d) (%d)' % (s_['pi'], s_['mi'])
    # well-posedness certificate (left inverse of the system matrix of the killed network = of the network)
    B = inverse(sl['A'])
    if B is None:
        res.count('net_singular_at_point')
        info['singular'] = True
        return items, info
    items.append(dict(label='%d/inv' % ci, probe='inv', role='main', defn=sl['defn'],
                      expr='g_inv %s %s %d%%nat %d%%nat [%s]' % (fld, sl['name'], sl['nn'], sl['mm'], '; '.join(xs(r, fld) for r in B))))
    # Voc
    x_oc = solve(so['A'], so['Z'])
    info['wellposed'] = x_oc is not None
    if x_oc is not None:
        info['model']['Voc'] = pvx(so, x_oc)
        for nm in ('Voc', 'thVoc'):
            v = fr(api.get(nm))
            if v is not None:
                add(nm, 'main', so, 'g_voc @F', pm(so), x_oc, v * scale)
    else:
        res.count('net_open_circuit_singular')
    # Isc
    x_sc = solve(border(so['A'], so['e']), so['Z'] + [Fraction(0)])
    if x_sc is not None:
        info['model']['Isc'] = x_sc[-1]
        for nm in ('Isc', 'noIsc'):
            v = fr(api.get(nm))
            if v is not None:
                add(nm, 'main', so, 'g_isc @F %s' % kd, pm(so), x_sc, v * scale)
    # Zth: killed network + unit test current
    kl = KINDTAG['transient'] if kind == 'dc' else kd
    x_t = solve(sl['A'], sl['e'])
    x_tf = None
    zsrc = src_part(sl['d'], sl['nn']) if has_ic else None
    if x_t is not None:
        info['model']['Z'] = pvx(sl, x_t)
        if has_ic:
            x_tf = solve(sl['A'], [a - b + c for a, b, c in zip(sl['Z'], zsrc, sl['e'])])
        for nm in ('Z', 'thZ'):
            v = fr(api.get(nm))
            if v is not None:
                add(nm, 'main', sl, 'g_zth @F true %s' % kl, pm(sl), x_t, v)
                if x_tf is not None:
                    add(nm, 'icskept', sl, 'g_zth @F false %s' % kl, pm(sl), x_tf, v)
    # Yth: killed network + unit test voltage
    x_y = solve(border(sl['A'], sl['e']), [Fraction(0)] * len(sl['e']) + [Fraction(1)])
    x_yf = None
    if x_y is not None:
        info['model']['Y'] = -x_y[-1]
        if has_ic:
            x_yf = solve(border(sl['A'], sl['e']), [a - b for a, b in zip(sl['Z'], zsrc)] + [Fraction(1)])
        for nm in ('Y', 'noY'):
            v = fr(api.get(nm))
            if v is not None:
                add(nm, 'main', sl, 'g_yth @F true %s' % kl, pm(sl), x_y, v)
                if x_yf is not None:
                    add(nm, 'icskept', sl, 'g_yth @F false %s' % kl, pm(sl), x_yf, v)
    # transfer (p, m) -> port2
    if case.get('port2') and (fr(api.get('H')) is not None or fr(api.get('H_direct')) is not None):
        p2, m2 = case['port2']
        ni = sl['d']['node_index']
        across = False
        vs_in = vs_out = False
        removed = []
        a2, b2 = ni.get(p2), ni.get(m2)
        ub_ = sl['d']['unknown_branch_currents']
        for e_ in sl['d']['elements']:
            if len(e_['nidx']) >= 2 and set(e_['nidx'][:2]) == {sl['pi'], sl['mi']}:
                if e_.get('_owner') in ('VCVS', 'CCVS', 'AM', 'TF', 'TR'):
                    across = True         # (whether apply_test_voltage_source removes these is not modelled)
                if e_.get('_owner') == 'V':
                    vs_in = True
                    removed.append(e_['name'])
            if e_.get('_owner') == 'V' and a2 is not None and b2 is not None and len(e_['nidx']) >= 2 and set(e_['nidx'][:2]) == {a2, b2}:
                vs_out = True
        # a removed source that controls a CCVS/CCCS would leave a dangling reference: not modelled
        if any(e_.get('ctrl') in removed for e_ in sl['d']['elements']):
            across = True
        x_h, x_hf = x_y, x_yf
        if removed and not across:
            # m_remove_vs: the sources across the input disappear; their branch unknowns stay in the model's numbering,
            # unconstrained - the witness sets them to 0
            res.count('transfer_with_source_across_input_removed')
            Ar = [list(r_) for r_ in sl['A']]
            Zr = list(sl['Z'])
            for nm_ in removed:
                k_ = sl['nn'] + ub_.index(nm_)
                for t_ in range(len(Ar)):
                    Ar[t_][k_] = Fraction(0)
                    Ar[k_][t_] = Fraction(0)
                Ar[k_][k_] = Fraction(1)
                Zr[k_] = Fraction(0)
            x_h = solve(border(Ar, sl['e']), [Fraction(0)] * len(sl['e']) + [Fraction(1)])
            x_hf = None
            if has_ic and x_h is not None:
                zf = [a - b for a, b in zip(Zr, zsrc)]
                for nm_ in removed:
                    zf[sl['nn'] + ub_.index(nm_)] = Fraction(0)
                x_hf = solve(border(Ar, sl['e']), zf + [Fraction(1)])
        # transfer() tries a ladder-network shortcut on kill() when the netlist has at least 6 elements
        info['ladder_fp'] = (len(case['netlist']) >= 6) and (vs_in or vs_out or (a2 is not None and a2 == b2))
        # ... and CircuitGraph.series_path follows a two-element branch through its middle node: fingerprint = a non-port node
        # that joins exactly two elements once the current sources are removed
        deg = {}
        for e_ in sl['d']['elements']:
            if e_.get('_owner') == 'I':
                continue
            for n_ in set(e_['nidx'][:2]):
                deg[n_] = deg.get(n_, 0) + 1
        # ... and the ladder maker does not notice components it could not place (two elements in parallel inside a
        # series/shunt path): fingerprint = two non-source elements on the same node pair
        pairs_ = {}
        for e_ in sl['d']['elements']:
            if e_.get('_owner') in ('I', 'V') or len(e_['nidx']) < 2:
                continue
            k_ = frozenset(e_['nidx'][:2])
            pairs_[k_] = pairs_.get(k_, 0) + 1
        info['ladder_parallel_fp'] = (len(case['netlist']) >= 6) and any(v_ >= 2 and len(k_) == 2 for k_, v_ in pairs_.items())
        ports_ = {sl['pi'], sl['mi'], a2, b2, -1}
        info['ladder_series_fp'] = (len(case['netlist']) >= 6) and any(k_ >= 0 and k_ not in ports_ and v_ == 2 for k_, v_ in deg.items())
        if a2 is not None and b2 is not None and a2 == b2:
            res.count('transfer_skipped_output_nodes_merged')
        elif a2 is not None and b2 is not None and not across and x_h is not None:
            info['model']['H'] = pvx(sl, x_h, a2, b2)
            for nm in ('H', 'H_direct'):
                v = fr(api.get(nm))
                if v is None:
                    continue
                add(nm, 'main', sl, 'g_tr @F true %s' % kl, '%s (%d) (%d)' % (pm(sl), a2, b2), x_h, v)
                if x_hf is not None:
                    add(nm, 'icskept', sl, 'g_tr @F false %s' % kl, '%s (%d) (%d)' % (pm(sl), a2, b2), x_hf, v)
        else:
            res.count('transfer_skipped_source_across_input')
    return items, info


def pi_eq(s_):
    return s_['pi'] == s_['mi']


def build_tree_items(ci, case, wr, res):
    items = []
    api = wr['api']
    s0 = Fraction(case['s0'])
    dc = case['profile'] == 'dc'
    ac = case['profile'] == 'ac'
    scale = s0 if dc else Fraction(1)
    t = case['tree']
    name = 'tr_%d' % ci
    if ac:
        # phasors over the Gaussian rationals; every reactive leaf is taken at s = j omega INSIDE the model tree, so the
        # model's th / no are the Thevenin / Norton pair at the source frequency whatever point the code evaluates at
        s0 = G(0, Fraction(case['omega']))
        fld, pfx = 'QcIF', 'g_%s QcIF'
    else:
        fld, pfx = 'QcF', 'c_%s'
    defn = 'Definition %s : tree %s := %s.' % (name, fld, tree_coq(t, s0, dc, fld))
    th, no = tree_eval(t, s0, dc)
    info = {'th': th, 'no': no, 'has_ic': tree_has_ic(t)}
    if info['has_ic']:
        info['ic_variants'] = tree_ic_variants(t)
    if not dc and not ac:
        info['dth'], info['dno'] = tree_eval(t, s0, True, ext=True)     # C open, L short: the s -> 0 model
    if ac and th is not None:
        info['model'] = {'Voc': th[0], 'Z': th[1]}      # (validated in Coq by the shape / value items below) for the exact load-line oracle
    # the harness evaluation of the tree is only used to decide WHICH comparisons make sense; the verdict is Coq's
    hs = ('g_has_%s QcIF' if ac else 'has_%s')
    items.append(dict(label='%d/shape' % ci, probe='shape', role='main', defn=defn,
                      expr='Bool.eqb (%s %s) %s && Bool.eqb (%s %s) %s' % (hs % 'th', name, 'true' if th else 'false', hs % 'no', name, 'true' if no else 'false')))
    if ac and th is not None:
        # the harness-side pair used by the exact load-line oracle is the model's
        items.append(dict(label='%d/model_pair' % ci, probe='model_pair', role='main', defn=defn,
                          expr='g_th_fst QcIF %s %s && g_th_snd QcIF %s %s' % (name, q(th[0], fld), name, q(th[1], fld))))

    def add(probe, fn, v, name=name, defn=defn):
        items.append(dict(label='%d/%s' % (ci, probe), probe=probe, role='main', defn=defn, expr='%s %s %s' % (pfx % fn[2:], name, q(v, fld))))
    dcx = dc and tree_count(t, ('C', 'L')) > 0
    if dcx:
        # .Z / .Y of the tree are Laplace-domain immittances (reported at s0); the dc model (C open, L short) is what
        # thevenin() / norton() must return (immittance at s = 0) and what Voc / Isc are
        name_s = name + '_s'
        defn_s = 'Definition %s : tree QcF := %s.' % (name_s, tree_coq(t, s0, False))
        sth, sno = tree_eval(t, s0, False)
        for nm, fn, ok in (('Z', 'c_th_snd', sth is not None), ('Y', 'c_no_snd', sno is not None)):
            v = fr(api.get(nm))
            if ok and v is not None:
                add(nm, fn, v, name_s, defn_s)
        # sources that cancel: thevenin() / norton() return the passive network as it is (a Laplace-domain immittance)
        if th is not None and th[0] == 0 and sth is not None and fr(api.get('thZ')) is not None:
            add('thZ', 'c_th_snd', fr(api['thZ']), name_s, defn_s)
        if no is not None and no[0] == 0 and sno is not None and fr(api.get('noY')) is not None:
            add('noY', 'c_no_snd', fr(api['noY']), name_s, defn_s)
    if th is not None:
        for nm, fn, sc in (('Voc', 'c_th_fst', scale), ('thVoc', 'c_th_fst', scale), ('Z', 'c_th_snd', 1), ('thZ', 'c_th_snd', 1)):
            v = fr(api.get(nm))
            if v is not None and not (dcx and (nm == 'Z' or (nm == 'thZ' and th[0] == 0))):
                add(nm, fn, v * sc)
    if no is not None:
        for nm, fn, sc in (('Isc', 'c_no_fst', scale), ('noIsc', 'c_no_fst', scale), ('Y', 'c_no_snd', 1), ('noY', 'c_no_snd', 1)):
            v = fr(api.get(nm))
            if v is not None and not (dcx and (nm == 'Y' or (nm == 'noY' and no[0] == 0))):
                add(nm, fn, v * sc)
    return items, info


def cases_file(items):
    lines = [HEADER]
    seen = set()
    for it in items:
        if it['defn'] and it['defn'] not in seen:
            seen.add(it['defn'])
            lines.append(it['defn'])
    lines.append('Definition cases : list (nat * bool) := [')
    lines.append(';\n'.join('(%d%%nat, %s)' % (it['gi'], it['expr']) for it in items))
    lines.append('].\nDefinition failing := map fst (filter (fun p => negb (snd p)) cases).\nEval vm_compute in failing.\n')
    return '\n'.join(lines)


# ---- oracles on Lcapy's own outputs -----------------------------------------------------------
def intersect(Voc, Zth, line):
    """(u, j) with u = Voc - Zth j and the load line u = E + Zl j (Zl None: open, j = 0)"""
    E = num(line['E'])
    if line['Zl'] is None:
        return (Voc, Fraction(0))
    Zl = num(line['Zl'])
    if Zth + Zl == 0:
        return None
    j = (Voc - E) / (Zth + Zl)
    return (E + Zl * j, j)


def vi(x):
    if not isinstance(x, dict) or 'vi' not in x or any(v is None for v in x['vi']):
        return None
    return (num(x['vi'][0]), num(x['vi'][1]))


def oracle(case, wr, info):
    """list of (name, detail) for every relation between Lcapy's own outputs that fails"""
    bad = []
    api = wr['api']
    # transfer functions belong to the killed network: comparable whatever the sources are
    if fr(api.get('H')) is not None and fr(api.get('H_direct')) is not None and fr(api['H']) != fr(api['H_direct']):
        bad.append(('transfer_route', 'transfer() = %s but apply_test_voltage_source().Voc() = %s' % (fr(api['H']), fr(api['H_direct']))))
    if case['mode'] == 'net' and (not info.get('wellposed') or len(wr.get('groups', [])) > 1):
        return bad          # several signal kinds at once, unsupported class, or not well-posed at the point / at dc: no single line to test
    g = lambda k: fr(api.get(k))
    # a source-free circuit takes its signal kind from the load: a dc load source makes original+load a dc analysis
    dc = (wr.get('kind') == 'dc') or (wr.get('kind') == 'none' and case['profile'] == 'dc') or (case['mode'] == 'oneport' and case['profile'] == 'dc')
    Voc, Isc, Z, Y = g('Voc'), g('Isc'), g('Z'), g('Y')
    if not dc:
        if None not in (Voc, Isc, Z) and Isc * Z != Voc:
            bad.append(('ident_voc', 'Voc = %s but Isc * Z = %s' % (Voc, Isc * Z)))
    if None not in (Z, Y) and Z * Y != 1:
        bad.append(('ident_zy', 'Z * Y = %s' % (Z * Y)))
    for a, b, nm in (('thVoc', 'Voc', 'th_voc'), ('thZ', 'Z', 'th_z'), ('noIsc', 'Isc', 'no_isc'), ('noY', 'Y', 'no_y')):
        if case['mode'] == 'oneport' and dc and nm in ('th_z', 'no_y'):
            continue
        if g(a) is not None and g(b) is not None and g(a) != g(b):
            bad.append((nm, '%s = %s but %s = %s' % (a, g(a), b, g(b))))
    ld = wr.get('load', {})
    lo, lt, ln = vi(ld.get('orig')), vi(ld.get('thev')), vi(ld.get('nort'))
    if lo is not None:
        if lt is not None and lt != lo:
            bad.append(('load_thev', 'original+load (u, j) = %s, thevenin model+load = %s' % (lo, lt)))
        if ln is not None and ln != lo:
            bad.append(('load_nort', 'original+load (u, j) = %s, norton model+load = %s' % (lo, ln)))
        if not dc:
            if g('thVoc') is not None and g('thZ') is not None and lo[0] != g('thVoc') - g('thZ') * lo[1]:
                bad.append(('line_thev', '(u, j) = %s of original+load is not on u = thVoc - thZ j' % (lo,)))
            if g('noIsc') is not None and g('noY') is not None and lo[1] != g('noIsc') - g('noY') * lo[0]:
                bad.append(('line_nort', '(u, j) = %s of original+load is not on j = noIsc - noY u' % (lo,)))
        # exact intersection with the Coq-validated model values
        mv = info.get('model', {})
        # (all-dc sources in a non-dc profile: Lcapy may analyse original+load at dc or as an initial value problem depending on
        #  the load's initial conditions; the textbook line prepared for the profile does not apply)
        if not dc and 'Voc' in mv and 'Z' in mv and case.get('loadline') and not (wr.get('groups') == ['dc'] and case['profile'] != 'dc'):
            line = dict(case['loadline'])
            if case['profile'] == 'dc':
                # resistive circuit compared in the Laplace domain: a dc quantity d is reported as d/s0
                line['E'] = str(Fraction(line['E']) / Fraction(case['s0']))
            ex = intersect(mv['Voc'], mv['Z'], line)
            if ex is not None and ex != lo:
                bad.append(('load_orig', 'original+load (u, j) = %s, exact Thevenin/load intersection %s' % (lo, ex)))
    if api.get('Zswap') is not None and fr(api.get('Zswap')) is not None and Z is not None and fr(api['Zswap']) != Z:
        bad.append(('ground_swap_z', 'impedance(p, m) = %s, impedance(m, p) = %s' % (Z, fr(api['Zswap']))))
    if fr(api.get('Vocswap')) is not None and Voc is not None and fr(api['Vocswap']) != -Voc:
        bad.append(('ground_swap_voc', 'Voc(p, m) = %s, Voc(m, p) = %s' % (Voc, fr(api['Vocswap']))))
    for gn, gr in wr.get('ground', {}).items():
        if fr(gr.get('Z')) is not None and Z is not None and fr(gr['Z']) != Z:
            bad.append(('ground_z', 'impedance with node %s grounded = %s, default %s' % (gn, fr(gr['Z']), Z)))
        if fr(gr.get('Voc')) is not None and Voc is not None and fr(gr['Voc']) != Voc:
            bad.append(('ground_voc', 'Voc with node %s grounded = %s, default %s' % (gn, fr(gr['Voc']), Voc)))
    return bad


METHOD = {'Z': 'impedance', 'Y': 'admittance', 'thZ': 'thevenin', 'noY': 'norton', 'H': 'transfer', 'H_direct': 'transfer',
          'Voc': 'Voc', 'Isc': 'Isc', 'thVoc': 'thevenin', 'noIsc': 'norton'}
ORACLE_PROBES = {'ident_voc': ['Voc', 'Isc', 'Z'], 'ident_zy': ['Z', 'Y'], 'th_voc': ['thVoc', 'Voc'], 'th_z': ['thZ', 'Z'],
                 'no_isc': ['noIsc', 'Isc'], 'no_y': ['noY', 'Y'], 'load_thev': ['thVoc', 'thZ'], 'load_nort': ['noIsc', 'noY'],
                 'line_thev': ['thVoc', 'thZ'], 'line_nort': ['noIsc', 'noY'], 'ground_swap_z': ['Z'], 'ground_z': ['Z'],
                 'ground_swap_voc': ['Voc'], 'ground_voc': ['Voc'], 'load_orig': [], 'transfer_route': []}


def classify(probe, failed, passed_diag, has_ic):
    """key for a correspondence difference of one probe in one case"""
    if has_ic and probe in ('Z', 'Y', 'thZ', 'noY', 'H', 'H_direct') and (probe, 'icskept') in passed_diag:
        return 'NetlistOpsMixin.%s:ics-kept' % METHOD[probe]
    return 'correspondence:%s' % probe


def run(tier='quick', replay=None):
    res = core.Result(PID, tier)
    rng = random.Random(core.seed() * 104729 + 4)
    core.ensure_theory(['FieldSec', 'QcI', 'Circuit', 'MNA', 'Thevenin', 'TheveninOnePort', 'TheveninDense'])
    w = core.Work(PID)
    violations = []
    try:
        res.trusted = ['Coq 8.16.1 kernel + vm_compute',
                       'translator tools/tr_stamps.py (sha256 %s)' % core.sha256_file(os.path.join(core.VERIF, 'tools', 'tr_stamps.py'))[:16],
                       'translator tools/tr_thevenin.py (sha256 %s)' % core.sha256_file(os.path.join(core.VERIF, 'tools', 'tr_thevenin.py'))[:16],
                       'specification coq/theory/Circuit.v (physical semantics of each component kind)',
                       'hand models coq/props/C04model.v (probes, returned models), coq/props/C01model.v, coq/theory/MNA.v (validated by correspondence)',
                       'harness: exact rational witnesses / inverse certificate (checked in Coq), textbook load lines, netlist text of generated cases',
                       'oracles (modelled, contract checked per case): sympy matrix solve, node merging/indexing, Superposition/Laplace bookkeeping']
        res.assumptions = ['characteristic-0 field with decidable equality',
                           'well-posedness (the homogeneous system forces the port voltage to 0) is a hypothesis of port_affine; for every generated circuit it is discharged by cert_determined from a left-inverse certificate evaluated in Coq (item inv)',
                           'load_invariance is stated for an arbitrary load RELATION at the port; the composition with a load netlist is exercised by the oracle, not proved',
                           'a killed voltage source is modelled as a 0 V source (Lcapy replaces it by a wire and merges the nodes)']
        cases = gen_cases(rng, tier)
        if replay and 'case' in replay:
            cases = [replay['case']]
        # ---- translate ----
        log('translate')
        texts = {}
        tr = None
        try:
            tr = TS.StampTranslator(os.path.join(core.REPO, 'lcapy', 'mnacpts.py'))
            tr.translate_all()
            texts['StampsGen.v'] = TS.emit(tr)
        except TS.Untranslatable as e:
            res.failed_obl.append(('translate', 'lcapy/mnacpts.py', str(e)))
            res.obligations += 1
            tr = None
        # the branch structure of OnePort.thevenin() / norton() (evaluation point of the immittance per signal kind)
        eval_files = []
        try:
            texts['C04evalGen.v'] = TT.translate(os.path.join(core.REPO, 'lcapy', 'oneport.py'))
            for f in ('C04evalmodel.v', 'C04eval.v'):
                texts[f] = open(os.path.join(core.VERIF, 'coq', 'props', f)).read()
            eval_files = ['C04evalmodel.v', 'C04evalGen.v', 'C04eval.v']
            for f in eval_files:
                w.write(f, texts[f])
            bad = core.gate_text('C04eval', '\n'.join(texts[f] for f in eval_files))
            if bad:
                res.failed_obl.append(('gate', 'C04eval', '; '.join(bad)))
                res.obligations += 1
        except TT.Untranslatable as e:
            res.failed_obl.append(('translate_oneport', 'lcapy/oneport.py', str(e)))
            res.obligations += 1
        eval_box = {}

        def prove_eval():
            for f in eval_files:
                eval_box.update(core.coqc_many(w.dir, [f], timeout=600))
                if not eval_box[f][0]:
                    break
        th_eval = threading.Thread(target=prove_eval)
        th_eval.start()
        # ---- real code, in the background ----
        wres_box = {}
        for c_ in cases:
            c_['tp_src'] = tr.tp_src if tr is not None else {}
            c_['timeout'] = 75 if tier == 'quick' else 150
            c_['step'] = 10 if tier == 'quick' else 25

        def impl():
            wres_box['r'] = core.run_impl('impl_thevenin.py', cases, nproc=max(2, core.NCPU - 3), timeout=1500 if tier == 'quick' else 7200)
        th_impl = threading.Thread(target=impl)
        th_impl.start()
        # ---- prove ----
        model_ok = False
        allr = {}
        rest_box = {}
        th_rest = None
        if tr is not None:
            w.write('StampsGen.v', texts['StampsGen.v'])
            ok, out, secs = core.coqc(w.dir, 'StampsGen.v')
            if not ok:
                res.failed_obl.append(('StampsGen', 'StampsGen.v', out[-800:]))
                res.obligations += 1
            else:
                for f in ('C01model.v', 'C01.v', 'C01net.v', 'C04model.v', 'C04.v', 'C04ex.v', 'C04ground.v', 'C04mna.v', 'C04cert.v'):
                    texts[f] = open(os.path.join(core.VERIF, 'coq', 'props', f)).read()
                    w.write(f, texts[f])
                # the shared C01 files may gain theory dependencies: build whatever LT.* the files of this run import
                lt = set()
                for t_ in texts.values():
                    lt.update(re.findall(r'\bLT\.([A-Za-z0-9_]+)', t_))
                lt = sorted(n_ for n_ in lt if os.path.exists(os.path.join(core.COQ_THEORY, n_ + '.v')))
                try:
                    core.ensure_theory(lt)
                except RuntimeError as e_:
                    res.failed_obl.append(('theory', 'coq/theory', str(e_)[-600:]))
                    res.obligations += 1
                bad = core.gate_text('generated+props', '\n'.join(texts.values()))
                if bad:
                    res.failed_obl.append(('gate', 'props', '; '.join(bad)))
                    res.obligations += 1
                log('coqc props')
                r0 = core.coqc_many(w.dir, ['C01model.v'], timeout=600)
                allr.update(r0)
                if r0['C01model.v'][0]:
                    allr.update(core.coqc_many(w.dir, ['C04model.v'], timeout=600))
                model_ok = allr.get('C04model.v', (False,))[0]

                def prove_rest():
                    """(C01 -> C01net) || (C04 -> C04ex), then C04mna; runs while the real code and the cases are evaluated"""
                    o = rest_box
                    if not allr.get('C01model.v', (False,))[0]:
                        return
                    first = ['C01.v'] + (['C04.v'] if model_ok else [])
                    o.update(core.coqc_many(w.dir, first, timeout=1500))
                    second = (['C01net.v'] if o['C01.v'][0] else []) + (['C04ex.v', 'C04ground.v'] if o.get('C04.v', (False,))[0] else [])
                    if second:
                        o.update(core.coqc_many(w.dir, second, timeout=900))
                    if o.get('C01net.v', (False,))[0] and o.get('C04.v', (False,))[0]:
                        o.update(core.coqc_many(w.dir, ['C04mna.v'], timeout=600))
                        if o['C04mna.v'][0]:
                            o.update(core.coqc_many(w.dir, ['C04cert.v'], timeout=600))
                th_rest = threading.Thread(target=prove_rest)
                th_rest.start()
        for f in ('Thevenin.v', 'TheveninOnePort.v', 'TheveninDense.v'):
            names = core.obligations_in(open(os.path.join(core.COQ_THEORY, f)).read())
            res.obligations += len(names)
            res.discharged += len(names)
            bad = core.gate_text(f, open(os.path.join(core.COQ_THEORY, f)).read())
            if bad:
                res.failed_obl.append(('gate', f, '; '.join(bad)))
                res.obligations += 1

        th_impl.join()
        wres = wres_box['r']
        log('impl done')
        # ---- correspondence items ----
        items = []
        infos = {}
        nprog = 0
        for ci, (case, wr) in enumerate(zip(cases, wres)):
            if 'error' in wr:
                res.count('impl_error:' + wr['error'].split(':')[0])
                infos[ci] = {}
                continue
            nprog += 1
            for t in case.get('tags', []):
                res.count('tag_' + t)
            for k, v in wr['api'].items():
                if isinstance(v, dict):
                    res.count('api_error_%s:%s' % (k, v['error'].split(':')[0]))
                elif not k.endswith('_repr'):
                    res.count('api_value_' + k)
            if tr is None or not model_ok:
                infos[ci] = {}
                continue
            if case['mode'] == 'net':
                its, info = build_net_items(ci, case, wr, tr, res)
                res.count('kind_' + str(wr.get('kind')))
                res.count('load_' + case.get('loadline', {}).get('kind', 'none'))
            else:
                its, info = build_tree_items(ci, case, wr, res)
            infos[ci] = info
            for it in its:
                it['gi'] = len(items)
                it['ci'] = ci
                items.append(it)
            nontriv = any(not isinstance(v, dict) for k, v in wr['api'].items() if not k.endswith('_repr')) and bool(its)
            fp = json.dumps([case.get('netlist'), case.get('port'), case.get('tree'), case.get('load')], sort_keys=True)
            res.add_case(fp, nontriv, {'netlist': case.get('netlist'), 'port': case.get('port'), 'load': case.get('load'),
                                       'api': {k: v for k, v in wr['api'].items() if not isinstance(v, dict)}} if len(res.samples) < 4 and nontriv else None)
        res.programs = nprog
        failing = set()
        evaluated = set()
        if items:
            shards, cur, cur_c = [], [], set()
            per = 120
            for it in items:
                if len(cur) >= per and it['ci'] not in cur_c:
                    shards.append(cur)
                    cur, cur_c = [], set()
                cur.append(it)
                cur_c.add(it['ci'])
            if cur:
                shards.append(cur)
            fns = []
            for si, sh in enumerate(shards):
                w.write('cases_%d.v' % si, cases_file(sh))
                fns.append('cases_%d.v' % si)
            log('coqc %d case files' % len(fns))
            cr = core.coqc_many(w.dir, fns, timeout=900)
            log('cases done')
            for si, f in enumerate(fns):
                ok, out, secs = cr[f]
                fl = core.parse_eval_list(out) if ok else None
                if fl is None:
                    res.failed_obl.append(('correspondence_eval', f, out[-700:]))
                    res.obligations += 1
                else:
                    failing.update(fl)
                    evaluated.update(it['gi'] for it in shards[si])
            res.extra['traces_validated_against_impl'] = len(evaluated)
        th_eval.join()
        if th_rest is not None:
            th_rest.join()
            allr.update(rest_box)
            for f in ('C01.v', 'C01net.v', 'C04.v', 'C04ex.v', 'C04ground.v', 'C04mna.v', 'C04cert.v'):
                if f not in allr:
                    res.failed_obl.append((f[:-2], f, 'not checked: a prerequisite file failed'))
                    res.obligations += 1
        allr.update(eval_box)
        for f in eval_files:
            if f not in allr:
                res.failed_obl.append((f[:-2], f, 'not checked: a prerequisite file failed'))
                res.obligations += 1
        if allr:
            res.coq_results(w.dir, allr, {f: texts[f] for f in allr})
            res.extra['coq_seconds'] = {f: round(r[2], 1) for f, r in allr.items()}
        log('props done')

        # ---- interpret ----
        by_case = {}
        for it in items:
            if it['gi'] not in evaluated:
                continue
            by_case.setdefault(it['ci'], []).append(it)
        seen = set()
        have_input = False
        for ci, (case, wr) in enumerate(zip(cases, wres)):
            if 'error' in wr:
                continue
            info = infos.get(ci, {})
            its = by_case.get(ci, [])
            failed = set((it['probe'], it['role']) for it in its if it['gi'] in failing)
            passed = set((it['probe'], it['role']) for it in its if it['gi'] not in failing)
            main_failed = sorted(p for p, r in failed if r == 'main')
            orc = oracle(case, wr, info)
            for nm, detail in orc:
                res.counterexamples.append({'case': case, 'oracle': nm, 'detail': detail})
            has_ic = bool(info.get('has_ic'))
            keys = {}
            if case['mode'] == 'net':
                for pb in main_failed:
                    keys[pb] = classify(pb, failed, passed, has_ic)
                    res.disagreements.append({'check': '%d/%s' % (ci, pb), 'key': keys[pb]})
                for nm, detail in orc:
                    # an oracle failure is attributed to the known finding only when every probe it depends on that differs from
                    # the model differs EXACTLY as the initial-conditions-kept model predicts (checked in Coq)
                    rel = [pb for pb in ORACLE_PROBES.get(nm, []) if pb in keys]
                    key = 'oracle:' + nm
                    if has_ic and rel and all(keys[pb].endswith(':ics-kept') for pb in rel):
                        key = keys[rel[-1]]
                    if nm == 'transfer_route' and not info.get('ladder_fp') and info.get('ladder_series_fp') and 'H_direct' not in keys \
                            and ('H_direct', 'main') in passed:
                        # the documented route agrees with the Coq model, the ladder shortcut does not, and the killed netlist has a
                        # two-element series branch (middle node of degree 2)
                        key = 'NetlistOpsMixin.transfer:ladder-series-branch'
                        if 'H' in keys:
                            keys['H'] = key
                    if nm == 'transfer_route' and not info.get('ladder_fp') and key == 'oracle:transfer_route' and info.get('ladder_parallel_fp') \
                            and 'H_direct' not in keys and ('H_direct', 'main') in passed:
                        key = 'NetlistOpsMixin.transfer:ladder-unplaced-components'
                        if 'H' in keys:
                            keys['H'] = key
                    if nm == 'transfer_route' and info.get('ladder_fp') and 'H_direct' not in keys:
                        # the two public routes disagree, the documented one agrees with the model (or is not modelled: source
                        # across the input), >= 6 elements and an independent V source across the input or output port, or the
                        # output port shorted by a wire
                        key = 'NetlistOpsMixin.transfer:ladder-shortcut'
                        if 'H' in keys:
                            keys['H'] = key
                    keys['oracle:' + nm] = key
            else:
                # one-port trees: ParSer.Voc / ParSer.Isc return 0 unless an INDEPENDENT source is below (6-F9)
                api = wr['api']
                sc = Fraction(case['s0']) if case['profile'] == 'dc' else 1
                th_, no_ = info.get('th'), info.get('no')
                for pb in main_failed:
                    key = 'correspondence:oneport.%s' % pb
                    v = fr(api.get(pb))
                    if has_ic and pb in ('Voc', 'thVoc', 'Isc', 'noIsc', 'thZ', 'noY'):
                        # ParSer.Voc / ParSer.Isc drop the initial conditions of sub-networks without independent source (which
                        # ones depends on how simplify() regroups the tree): the value is that of the tree with SOME of its
                        # initial conditions set to zero
                        if v is not None and pb in ('Voc', 'thVoc', 'Isc', 'noIsc'):
                            for tv in info.get('ic_variants', []):
                                vth, vno = tree_eval(tv, Fraction(case['s0']), case['profile'] == 'dc')
                                exp = (vth[0] if vth else None) if pb in ('Voc', 'thVoc') else (vno[0] if vno else None)
                                if exp is not None and v * sc == exp:
                                    key = 'OnePort.%s:ics-ignored' % {'Voc': 'Voc', 'Isc': 'Isc', 'thVoc': 'thevenin', 'noIsc': 'norton'}[pb]
                                    break
                        if pb == 'thZ' and v is not None and fr(api.get('thVoc')) == 0 and info.get('dth') and v == info['dth'][1]:
                            # thevenin() takes the dc branch (Z.subs(0)) because the ignored initial conditions make Voc vanish
                            key = 'OnePort.thevenin:ics-ignored'
                        if pb == 'noY' and v is not None and fr(api.get('noIsc')) == 0 and info.get('dno') and v == info['dno'][1]:
                            key = 'OnePort.norton:ics-ignored'
                    # OnePort.thevenin()/norton(): a vanishing Voc / Isc "is_dc", so the immittance is evaluated at s = 0
                    if pb == 'thZ' and th_ is not None and th_[0] == 0 and info.get('dth') and v is not None and v == info['dth'][1]:
                        key = 'OnePort.thevenin:zero-voc-dc-branch'
                    if pb == 'noY' and no_ is not None and no_[0] == 0 and info.get('dno') and v is not None and v == info['dno'][1]:
                        key = 'OnePort.norton:zero-isc-dc-branch'
                    keys[pb] = key
                    res.disagreements.append({'check': '%d/oneport.%s' % (ci, pb), 'key': key})
                # the dc branch with an infinite immittance: thevenin() returns R(zoo) / norton() returns G(zoo): no rational value to compare
                if isinstance(api.get('thZ'), dict) and th_ is not None and th_[0] == 0 and info.get('dno') is not None and info['dno'][1] == 0:
                    keys['thZ'] = 'OnePort.thevenin:zero-voc-dc-branch'
                if isinstance(api.get('noY'), dict) and no_ is not None and no_[0] == 0 and info.get('dth') is not None and info['dth'][1] == 0:
                    keys['noY'] = 'OnePort.norton:zero-isc-dc-branch'
                explained = bool(keys) and all(k.startswith('OnePort.') for k in keys.values())
                for nm, detail in orc:
                    key = 'oracle:oneport.' + nm
                    if explained:
                        m_ = {'ident_voc': 'Voc', 'load_thev': 'thZ', 'line_thev': 'thZ', 'load_nort': 'noY', 'line_nort': 'noY',
                              'th_voc': 'thVoc', 'th_z': 'thZ', 'no_isc': 'noIsc', 'no_y': 'noY'}.get(nm)
                        alt = {'thZ': 'thVoc', 'noY': 'noIsc', 'Voc': 'Isc'}
                        if m_ in keys:
                            key = keys[m_]
                        elif alt.get(m_) in keys:
                            key = keys[alt[m_]]
                    keys['oracle:' + nm] = key
            orc_d = dict(orc)
            for name, key in keys.items():
                is_or = name.startswith('oracle:')
                if is_or:
                    have_input = True
                if key in seen:
                    continue
                seen.add(key)
                small = {k: v for k, v in case.items() if k not in ('tp_src',)}
                if is_or:
                    violations.append({'key': key, 'what': 'outputs of the real code violate %s: %s' % (name[7:], orc_d[name[7:]]),
                                       'case': small, 'api': wr['api'], 'load': wr.get('load'), 'found_input': True})
                else:
                    exp = info.get('model', {}).get({'thVoc': 'Voc', 'thZ': 'Z', 'noIsc': 'Isc', 'noY': 'Y'}.get(name, name))
                    # a correspondence difference on a concrete circuit is itself an input on which the probe's value is not the
                    # Thevenin quantity of the (Coq-validated) model; confirmed independently when an oracle also fails on it
                    violations.append({'key': key, 'what': 'probe %s: Lcapy returned %s, model value %s' % (name, wr['api'].get(name), exp),
                                       'case': small, 'api': wr['api'], 'found_input': bool(orc),
                                       'correspondence': 'Gen.C04model (c_%s)' % name})
        res.rule = ('net: vlib/netgen random connected netlists (profiles dc / s / ivp; dependent sources, transformer, gyrator, mutual inductance, '
                    'two-ports, wires, ammeters; every 4th circuit floating = ground renamed) x random node pair (port) x random load '
                    '{R, RC, RL, RLC, source+R} x optional second port for transfer, plus a fixed corpus; oneport: random series/parallel trees '
                    '(depth <= 3) of R, C, L, V, I leaves (initial conditions in profile ivp), ac trees (1-2 Vac/Iac sources of one rational angular '
                    'frequency with quarter-turn phases, 1-3 reactive leaves, passive R/RC/RL/RLC load, plus a fixed corpus), dc trees with 1-2 reactive '
                    'leaves; non-trivial = at least one probe returned a value '
                    'and a Coq comparison was generated; distinct = distinct (netlist/tree, port, load)')
        for name, f, msg in res.failed_obl:
            violations.append({'key': 'obligation:' + name, 'what': 'Coq obligation %s in %s no longer checks' % (name, f),
                               'theorem': name, 'file': f, 'message': msg, 'found_input': False,
                               'note': 'failing inputs found by the oracles are reported as separate violations' if have_input else ''})
        return core.finish(res, violations)
    finally:
        if not os.environ.get('VERIF_KEEP'):
            w.cleanup()


if __name__ == '__main__':
    sys.exit(run(sys.argv[1] if len(sys.argv) > 1 else 'quick'))
