"""C13 — discrete-time transforms match their defining sums and invert;
transfer function / difference equation / impulse response / recursion agree.

  theory     coq/theory/SeqFilter.v  (model H of DLTIFilter.response, formal power series, run_satisfies_de,
                                       tf_de_equiv, impulse_response_coeffs, response_is_conv, zic_response, from_tf_sound,
                                       reference semantics of Sequence.lfilter/convolve)
             coq/theory/SeqDFT.v     (dft_def, orthogonality, idft_dft, closed forms), SeqQcI.v (Gaussian rationals)
             coq/theory/SeqZ.v       (is_zt, model H of the rule cascade of ZTransformer.term, zt_term_sound, zt_binom)
             coq/theory/SeqZAnalysis.v (Coquelicot: geometric_entry, zt_analytic)
  translate  lcapy/ztransform.py, lcapy/dft.py -> Gen/ZTableGen.v, Gen/DFTTableGen.v   (tools/tr_ztable.py, fail-closed)
             lcapy/transformer.py + the six transformer classes -> Gen/DTKey_<class>.v  (tools/tr_dtkeys.py, fail-closed;
             theory coq/theory/SeqCache.v, props/C13_cache.v: cache transparency from key-determines-view)
  prove      Gen/C13_tables.v (generated statements, templates below), props/C13.v, props/C13_analysis.v
  correspond real code (tools/impl_dt.py) vs the models, evaluated by vm_compute inside Coq over Qc / Qc[i]
  search     independent exact oracles: direct evaluation of the difference equation on the returned samples,
             exact partial sums of the defining z-sum, finite DFT sums in Q(zeta_M)
"""
import json
import math
import os
import random
import sys
import warnings
from fractions import Fraction

sys.path.insert(0, os.path.dirname(os.path.dirname(os.path.abspath(__file__))))
from vlib import core
sys.path.insert(0, os.path.join(core.VERIF, 'tools'))
import tr_ztable as T
import tr_dtkeys as TK

PID = 'C13'
MANIFEST = {
    'text': 'Coq theorems over an abstract characteristic-0 field: the statement-by-statement model of DLTIFilter.response satisfies the '
            'difference equation for every b, a, input, initial conditions and n (induction); difference equation, transfer function, '
            'from_transfer_function, impulse response, convolution and z-domain initial response describe the same formal-power-series '
            'relation A.Y = B.X + IC; the N-point DFT model equals the defining sum and idft(dft x) = x for any N with a primitive root; '
            'the model of the rule cascade of ZTransformer.term returns (P,Q) with Q.X = P as power series in 1/z for every descriptor '
            '(zt_term_sound) and, by Coquelicot, P(w)/Q(w) is the value of the defining sum inside the radius of convergence (zt_analytic); '
            'DTFTs of finite and absolutely summable causal signals are compared with the same model on rational points of the unit circle. '
            'Table entries (z-transform table and rules, DFT constant/impulse/n**p closed forms, sinusoid/exponential/a**n/n rules, repeated-pole '
            'prefactors of the inverse z-transform) are regenerated from ztransform.py/dft.py/inverse_ztransform.py by a fail-closed ast translator on every run; the hand models are '
            'evaluated inside Coq (vm_compute over Qc and Qc[i]) against what the real code returned on generated inputs. '
            'Result caches: the key method of each of the six z/DFT/DTFT transformer classes and everything the code reads of the keyword arguments '
            'between transform and term (kwargs.get, named parameters filled from **kwargs, followed along self/super calls) are regenerated from the '
            'source (tools/tr_dtkeys.py, doit protocol pinned); per class gen_key_determines_view_<C> and gen_cache_transparent_<C> (any history of calls '
            'returns what fresh computations return, for every function of what is read), the condition is proved necessary (keyed_cache_needs_key); '
            'histories of calls on one instance are compared with fresh instances.',
    'note': 'Trusted: Coq kernel/vm_compute; tools/tr_ztable.py + statement templates in checks/c13.py; canonicalisation in tools/impl_dt.py '
            '(exact rationals / Q(zeta_M), never floats); sympy simplify/expand inside Lcapy modelled as identity (validated by the '
            'correspondence). _partial: dft.py UnitStep/rect window index logic, Faulhaber special values, n**p for p > 3 and termXk (correspondence + exact '
            'cyclotomic oracle only); DTFT entries with Dirac combs / images (generalised functions) not modelled; analytic statement for real z only; advanced '
            'impulses/steps (negative delays) are transformed bilaterally by Lcapy (pinned by its own tests) and are outside the premise. '
            'Cache model: state other than the keyword arguments (global sympy assumptions, attributes left on the instance by earlier calls other than '
            'those set by check from the request) is not modelled; tools/tr_dtkeys.py is trusted for the read-set extraction.',
    'technique': 'Coq proof (induction, formal power series, Coquelicot) over hand models + fail-closed ast translator for table entries + '
                 'in-Coq correspondence evaluation + exact defining-sum search oracles',
}

F = Fraction


def fs(x):
    x = F(x)
    return '%d/%d' % (x.numerator, x.denominator)


def qc(x):
    x = F(x)
    return '(qc (%d) %d)' % (x.numerator, x.denominator)


def qlist(l):
    if not l:
        return '(@nil Qc)'
    return '([%s] : list Qc)' % '; '.join(qc(v) for v in l)


def qolist(l):
    if not l:
        return '(@nil (option Qc))'
    return '([%s] : list (option Qc))' % '; '.join('None' if v is None else 'Some %s' % qc(v) for v in l)


def ci(v):
    """v = ['a','b'] meaning a + b i"""
    return '(QI %s %s)' % (qc(v[0]), qc(v[1]))


def cilist(l):
    if not l:
        return '(@nil qci)'
    return '([%s] : list qci)' % '; '.join(ci(v) for v in l)


def zlit(n):
    return '(%d)%%Z' % n


def rnd(rng, nz=False, big=5):
    while True:
        v = F(rng.randint(-big, big), rng.randint(1, 4))
        if v != 0 or not nz:
            return v


# ------------------------------------------------------------------ generators
def gen_filter(rng, maxb=4, maxa=4):
    b = [rnd(rng) for _ in range(rng.randint(1, maxb))]
    a = [rnd(rng, nz=True)] + [rnd(rng) for _ in range(rng.randint(0, maxa - 1))]
    if rng.random() < 0.5:
        a[0] = F(1)
    return b, a


def gen_cases(rng, tier):
    k = 3 if tier == 'quick' else 16
    cases = []

    def add(c):
        cases.append(c)

    # A response
    for i in range(48 * k):
        b, a = gen_filter(rng)
        Ni = len(a) - 1
        xk = ['list', 'seq', 'expr'][i % 3]
        x = [rnd(rng) for _ in range(rng.randint(2, 6))]
        xn0 = 0 if xk == 'list' else rng.randint(-3, 1)
        ic = [rnd(rng) for _ in range(Ni)]
        n0 = rng.randint(-Ni - 2, 3)
        n1 = rng.randint(max(n0, 0) + 1, 11)
        c_ = {'kind': 'response', 'b': [fs(v) for v in b], 'a': [fs(v) for v in a], 'x': [fs(v) for v in x], 'xkind': xk,
              'xn0': xn0, 'ic': [fs(v) for v in ic], 'ni': [n0, n1]}
        if i % 8 == 7:          # default arguments: ic=None (zeros), ni=None ((-Ni, 10))
            c_.update({'defaults': True, 'ic': [fs(0)] * Ni, 'ni': [-Ni, 10]})
        add(c_)
    # B tf, C de, D impulse
    for i in range(16 * k):
        b, a = gen_filter(rng)
        add({'kind': 'tf', 'b': [fs(v) for v in b], 'a': [fs(v) for v in a], 'z': fs(rnd(rng, nz=True, big=9) + F(1, 7))})
    for i in range(16 * k):
        b, a = gen_filter(rng)
        if i % 4 == 0:
            a = [F(0)] * rng.randint(1, 2) + a      # leading zero denominator coefficients (use_lhs logic)
        if all(v == 0 for v in b):
            b[0] = F(1)
        add({'kind': 'de', 'b': [fs(v) for v in b], 'a': [fs(v) for v in a]})
    for i in range(16 * k):
        b, a = gen_pole_filter(rng, i)
        add({'kind': 'impulse', 'b': [fs(v) for v in b], 'a': [fs(v) for v in a], 'N': 9})
    # D' paths around the filter object: inverse(), difference_equation().transfer_function(), frequency_response()
    # (incl. the moving-average closed form), from_ZPK, zexpr.difference_equation(), zexpr.as_ab()
    for i in range(6 * k):
        b, a = gen_filter(rng)
        if b[0] == 0:
            b[0] = F(1)
        add({'kind': 'invtf', 'b': [fs(v) for v in b], 'a': [fs(v) for v in a], 'z': fs(rnd(rng, nz=True, big=9) + F(1, 7))})
    for i in range(6 * k):
        b, a = gen_filter(rng)
        if all(v == 0 for v in b):
            b[0] = F(1)
        add({'kind': 'detf', 'b': [fs(v) for v in b], 'a': [fs(v) for v in a], 'z': fs(rnd(rng, nz=True, big=9) + F(2, 7))})
    for i in range(9 * k):
        e = rng.choice(UNIT)
        if i % 3 == 0:                      # moving average: equal b, a single denominator coefficient
            c0 = rnd(rng, nz=True)
            b, a = [c0] * rng.randint(2, 5), [rnd(rng, nz=True)]
        else:
            b, a = gen_filter(rng)
        add({'kind': 'freqresp', 'b': [fs(v) for v in b], 'a': [fs(v) for v in a], 'e': [fs(e[0]), fs(e[1])]})
    for i in range(8 * k):
        nz_, np_ = [(1, 1), (2, 2), (0, 1), (1, 2), (0, 2), (1, 3), (2, 1), (3, 3)][i % 8]
        add({'kind': 'zpk', 'Z': [fs(rnd(rng)) for _ in range(nz_)], 'P': [fs(rnd(rng)) for _ in range(np_)], 'K': fs(rnd(rng, nz=True)),
             'z': fs(rnd(rng, nz=True, big=9) + F(3, 11))})
    for i in range(8 * k):
        nn = [rnd(rng, nz=True)] + [rnd(rng) for _ in range(rng.randint(0, 2))]
        dn = [rnd(rng, nz=True)] + [rnd(rng) for _ in range(rng.randint(len(nn) - 1, 3))]
        if i % 4 == 0:
            nn, dn = nn + [F(0)], dn + [F(0)]
        add({'kind': 'zde' if i % 2 == 0 else 'asab', 'H': '(%s)/(%s)' % (poly_str(nn), poly_str(dn)),
             'nn_req': [fs(v) for v in nn], 'dn_req': [fs(v) for v in dn], 'z': fs(rnd(rng, nz=True, big=9) + F(3, 7))})
    # E zic
    for i in range(24 * k):
        b, a = gen_filter(rng)
        if i % 3 == 0:
            while len(b) > len(a):
                b = b[:-1]
        if i % 6 == 1:
            while len(b) <= len(a):
                b = b + [rnd(rng, nz=True)]
            if len(a) == 1:
                a = a + [rnd(rng, nz=True)]
                b = b + [rnd(rng, nz=True)]
        Ni = len(a) - 1
        left = (i % 4 != 3)
        add({'kind': 'zic', 'b': [fs(v) for v in b], 'a': [fs(v) for v in a], 'ic': [fs(rnd(rng)) for _ in range(Ni)],
             'xic': [fs(rnd(rng)) for _ in range(Ni)], 'z': fs(rnd(rng, nz=True, big=9) + F(2, 7)), 'left': left})
    # F from_transfer_function
    for i in range(16 * k):
        nn = [rnd(rng, nz=True)] + [rnd(rng) for _ in range(rng.randint(0, 3))]
        dn = [rnd(rng, nz=True)] + [rnd(rng) for _ in range(rng.randint(0, 3))]
        if i % 3 == 0:                     # common factor z^s  -> trailing zeros
            s = rng.randint(1, 2)
            nn = nn + [F(0)] * s
            dn = dn + [F(0)] * s
        if i % 5 == 1:
            dn = dn + [F(0)]
        add({'kind': 'fromtf', 'H': '(%s)/(%s)' % (poly_str(nn), poly_str(dn)), 'z': fs(rnd(rng, nz=True, big=9) + F(3, 7)),
             'nn_req': [fs(v) for v in nn], 'dn_req': [fs(v) for v in dn]})
    # G lfilter, H convolve
    for i in range(18 * k):
        x = [rnd(rng) for _ in range(rng.randint(2, 6))]
        cls = i % 3
        if cls == 0:        # FIR
            b = [rnd(rng, nz=True) for _ in range(rng.randint(2, 4))]
            a = [rnd(rng, nz=True)]
        elif cls == 1:      # pure feedback
            b = [rnd(rng, nz=True)]
            a = [rnd(rng, nz=True)] + [rnd(rng, nz=True) for _ in range(rng.randint(1, 2))]
        else:
            b, a = gen_filter(rng, 3, 3)
        add({'kind': 'lfilter', 'x': [fs(v) for v in x], 'xn0': rng.randint(-2, 2), 'b': [fs(v) for v in b], 'a': [fs(v) for v in a]})
    for i in range(18 * k):
        x = [rnd(rng) for _ in range(rng.randint(1, 5))]
        h = [rnd(rng) for _ in range(rng.randint(1, 4))]
        cls = i % 3
        if cls == 0:
            h[0] = rnd(rng, nz=True)
            x[0] = rnd(rng, nz=True)
            x[-1] = rnd(rng, nz=True)
            h[-1] = rnd(rng, nz=True)
        elif cls == 1:      # zeros at the ends of x, trailing zeros of h
            h[0] = rnd(rng, nz=True)
            x = [F(0)] + x + [F(0)]
            h = h + [F(0)]
        else:               # leading zeros of h
            h = [F(0)] * rng.randint(1, 2) + [rnd(rng, nz=True)] + h
        if all(v == 0 for v in x):
            x[0] = F(1)
        add({'kind': 'convolve', 'x': [fs(v) for v in x], 'xn0': rng.randint(-2, 2), 'h': [fs(v) for v in h], 'hn0': rng.randint(-2, 2)})
    # I sequence z-transform
    for i in range(12 * k):
        x = [rnd(rng) for _ in range(rng.randint(1, 5))]
        n0 = 0 if i % 3 == 0 else rng.randint(1, 3)
        add({'kind': 'seqzt', 'x': [fs(v) for v in x], 'n0': n0, 'z': fs(rnd(rng, nz=True, big=9) + F(1, 3))})
    # J z-transform of expressions
    for i in range(54 * k):
        add(gen_zt(rng, i))
    # J' z-transform followed by the inverse transform
    for i in range(16 * k):
        c_ = gen_zt(rng, 4 * i + 1 if i % 3 else 4 * i, notrig=True)
        c_['kind'] = 'ztrt'
        c_['N'] = 8
        add(c_)
    # J'' DTFT of finite and absolutely summable causal signals on rational points of the unit circle
    for i in range(16 * k):
        e = rng.choice(UNIT + [(F(-1), F(0)), (F(1), F(0)), (F(0), F(-1))])
        if i % 3 == 0:
            x = [rnd(rng) for _ in range(rng.randint(1, 5))]
            add({'kind': 'dtft', 'x': [fs(v) for v in x], 'n0': rng.randint(-3, 2), 'e': [fs(e[0]), fs(e[1])]})
        else:
            terms = []
            for t in range(1 if i % 2 else 2):
                d = {'c': rnd(rng, nz=True), 'p': 0, 'geos': [], 'steps': [], 'base': ('one',)}
                if rng.random() < 0.3:
                    d['base'] = ('imp', rng.randint(0, 4))
                    if rng.random() < 0.4:
                        d['p'] = 1
                else:
                    lam = rng.choice([F(1, 2), F(1, 3), F(2, 3), F(-1, 2), F(-2, 3), F(1, 4)])
                    d['geos'].append((lam, rng.choice([1, 1, 2]), rng.choice([0, 0, 1, -1])))
                    d['steps'].append(rng.choice([0, 0, 0, 1, 2, 3]))
                    d['p'] = rng.choice([0, 0, 1, 2])
                terms.append(d)
            add({'kind': 'dtft', 'expr': zt_expr_str(terms), 'terms': enc_terms(terms), 'e': [fs(e[0]), fs(e[1])]})
    # K inverse z
    for i in range(24 * k):
        b, a = gen_pole_filter(rng, i)
        L = max(len(a), len(b)) - 1
        num = poly_str([v for v in b] + [F(0)] * (L + 1 - len(b)))
        den = poly_str([v for v in a] + [F(0)] * (L + 1 - len(a)))
        kw = {'causal': True} if i % 2 else {}
        add({'kind': 'izt', 'H': '(%s)/(%s)' % (num, den), 'N': 9, 'b': [fs(v) for v in b], 'a': [fs(v) for v in a], 'kw': kw})
    # K' conjugate pole pairs / repeated poles of high multiplicity through H(n), impulse_response(), step_response()
    for i in range(8 * k):
        b, a, Hf = gen_multi_pole(rng, i)
        L = max(len(a), len(b)) - 1
        Hx = '(%s)/(%s)' % (poly_str(b + [F(0)] * (L + 1 - len(b))), poly_str(a + [F(0)] * (L + 1 - len(a))))
        kw = [{}, {'pairs': False}, {'causal': True}, {'causal': True, 'pairs': False}][(i // 6) % 4]
        add({'kind': 'izt', 'H': Hf if i % 2 == 0 else Hx, 'N': 14, 'b': [fs(v) for v in b], 'a': [fs(v) for v in a], 'kw': kw, 'cpu_limit': 20})
    for i in range(4 * k):
        b, a, Hf = gen_multi_pole(rng, i)
        add({'kind': 'impulse', 'b': [fs(v) for v in b], 'a': [fs(v) for v in a], 'N': 14, 'cpu_limit': 20})
    for i in range(4 * k):
        if i % 2 == 0:
            while True:
                b, a, Hf = gen_multi_pole(rng, rng.randint(0, 5))
                if len(a) <= 6:
                    break
        else:
            b, a = gen_pole_filter(rng, i)
        add({'kind': 'step', 'b': [fs(v) for v in b], 'a': [fs(v) for v in a], 'N': 12, 'cpu_limit': 15})
    # L DFT
    for i in range(20 * k):
        N = [1, 2, 4, 3, 4, 5, 2, 6, 4, 8][i % 10]
        x = [rnd(rng) for _ in range(N)]
        n0 = 0 if i % 2 == 0 else rng.randint(-2, 3)
        add({'kind': 'seqdft', 'x': [fs(v) for v in x], 'n0': n0, 'M': cyc_M(N)})
    for i in range(32 * k):
        add(gen_dft_expr(rng, i, inverse=False))
    for i in range(12 * k):
        add(gen_dft_expr(rng, i, inverse=True))
    return cases


KEYHIST = {
    'DFTTransformer': ('dft', 'n', 'k', ['delta(n-1)', '2**(-n)', 'delta(n-2)', '3**(-n)'], [{'N': 4}, {'N': 8}, {'N': 'N'}, {'N': 4, 'piecewise': True}, {'N': 6}]),
    'InverseDFTTransformer': ('inverse_dft', 'k', 'n', ['delta(k-1)', 'delta(k-2)', '2**(-k)'], [{'N': 4}, {'N': 8}, {'N': 'N'}, {'N': 6}]),
    'DTFTTransformer': ('dtft', 'n', 'f', ['1', 'delta(n-1)', '2**(-n)*u(n)'], [{}, {'images': 0}, {'images': 2}, {'images': 4}]),
    'InverseZTransformer': ('inverse_ztransform', 'z', 'n', ['z/(z-1/2)', 'z/(z-1/3)', '1/(z-1/2)', 'z**2/((z-1/2)*(z-1/4))'],
                            [{}, {'causal': True}, {'causal': False}, {'pairs': False}, {'causal': True, 'pairs': False}]),
    'ZTransformer': ('ztransform', 'n', 'z', ['2**(-n)', 'n*3**(-n)', 'delta(n-2)', 'u(n-1)'], [{}]),
    'IDTFTTransformer': ('inverse_dtft', 'f', 'n', ['1', '2', 'exp(-2*j*pi*f*dt)'], [{}]),
}


def gen_keyhist(rng, tier):
    """histories of calls on one transformer instance: the same expression (up to a constant factor, which doit splits off
    before the key) under different keyword arguments, interleaved"""
    out = []
    reps = 1 if tier == 'quick' else 4
    for cls_ in sorted(KEYHIST):
        mod, var, conj, exprs, kws = KEYHIST[cls_]
        for rep_ in range(reps):
            e = exprs[rep_ % len(exprs)] if rep_ else exprs[0]
            order = list(kws)
            rng.shuffle(order)
            calls = []
            for i, kw in enumerate(order + order[:2]):
                fac = rng.choice(['', '', '3*', '(-2)*'])
                calls.append([fac + '(' + e + ')' if fac else e, kw])
            if rep_ % 2:
                calls.insert(1, [exprs[(rep_ + 1) % len(exprs)], order[0]])
            out.append({'kind': 'keyhist', 'module': mod, 'cls': cls_, 'var': var, 'conj': conj, 'calls': calls, 'cpu_limit': 60})
    return out


def poly_str(desc):
    """descending coefficient list -> string in z"""
    n = len(desc)
    ts = []
    for i, c in enumerate(desc):
        p = n - 1 - i
        if c == 0:
            continue
        ts.append('(%s)*z**%d' % (fs(c), p))
    return ' + '.join(ts) if ts else '0'


def pmul(p, q):
    r = [F(0)] * (len(p) + len(q) - 1)
    for i, u in enumerate(p):
        for j, v in enumerate(q):
            r[i + j] += u * v
    return r


def gen_pole_filter(rng, i):
    """(b, a) in powers of 1/z with chosen poles: simple real, repeated real, Gaussian-rational pairs"""
    cls = i % 4
    a = [F(1)]
    if cls == 0:
        ps = rng.sample([F(1, 2), F(-1, 2), F(1, 3), F(2, 3), F(-1, 3), F(3, 4), F(1), F(-1), F(2)], rng.randint(1, 3))
        for p in ps:
            a = pmul(a, [F(1), -p])
    elif cls == 1:
        p = rng.choice([F(1, 2), F(-1, 3), F(2, 3), F(1)])
        for _ in range(rng.randint(2, 3)):
            a = pmul(a, [F(1), -p])
        if rng.random() < 0.5:
            a = pmul(a, [F(1), -rng.choice([F(1, 5), F(-1, 4)])])
    elif cls == 2:
        # complex pair r (c +- j s) with (c, s) a rational point of the unit circle: 1 - 2 r c w + r^2 w^2
        c, s = rng.choice([(F(3, 5), F(4, 5)), (F(5, 13), F(12, 13)), (F(0), F(1)), (F(-3, 5), F(4, 5))])
        r = rng.choice([F(1), F(1, 2), F(2, 3)])
        a = pmul(a, [F(1), -2 * r * c, r * r])
        if rng.random() < 0.4:
            a = pmul(a, [F(1), -rng.choice([F(1, 2), F(-1, 3)])])
    else:
        a = [F(1)] + [rnd(rng) for _ in range(rng.randint(1, 2))]
    b = [rnd(rng, nz=(j == 0)) for j in range(rng.randint(1, len(a) + 1))]
    return b, a


PAIRS = [(F(1), F(1)), (F(1, 3), F(2, 3)), (F(0), F(1)), (F(1, 2), F(1, 2)), (F(-1, 2), F(1, 2)), (F(3, 5), F(4, 5)),
         (F(1), F(2)), (F(-1, 3), F(1, 3)), (F(1, 2), F(-3, 2))]
REALS = [F(1, 2), F(-1, 2), F(1, 3), F(2, 3), F(-1, 3), F(3, 4), F(1), F(-1), F(2), F(-3, 2)]


def gen_multi_pole(rng, i):
    """H(z) with conjugate Gaussian-rational pole pairs of multiplicity up to 4, repeated real poles up to
    multiplicity 5, simple poles and poles at 0.  Returns (b, a) in powers of 1/z and a factored string in z."""
    while True:
        b, a, Hs = _gen_multi_pole(rng, i)
        if len(a) <= 9:
            return b, a, Hs


def _gen_multi_pole(rng, i):
    cls = i % 6
    facs = []        # (kind, params, multiplicity)
    if cls in (0, 1, 2):
        al, be = rng.choice(PAIRS)
        facs.append(('pair', (al, be), [3, 4, 3][cls] if rng.random() < 0.8 else rng.randint(1, 2)))
        if rng.random() < 0.5:
            facs.append(('real', rng.choice(REALS), rng.randint(1, 2)))
        if cls == 2 and rng.random() < 0.5:
            al2, be2 = rng.choice([p for p in PAIRS if p != (al, be)])
            facs.append(('pair', (al2, be2), rng.randint(1, 2)))
    elif cls == 3:
        facs.append(('real', rng.choice(REALS), rng.randint(3, 5)))
        if rng.random() < 0.6:
            facs.append(('real', rng.choice([r for r in REALS if r != facs[0][1]]), rng.randint(1, 3)))
    elif cls == 4:
        al, be = rng.choice(PAIRS)
        facs.append(('pair', (al, be), rng.randint(2, 3)))
        facs.append(('real', rng.choice(REALS), rng.randint(2, 4)))
    else:
        for p in rng.sample(REALS, rng.randint(1, 3)):
            facs.append(('real', p, 1))
        al, be = rng.choice(PAIRS)
        facs.append(('pair', (al, be), rng.randint(1, 3)))
    a = [F(1)]
    den = []
    for kind, par, mult in facs:
        if kind == 'real':
            q = [F(1), -par]
            den.append('(z - (%s))**%d' % (fs(par), mult))
        else:
            al, be = par
            q = [F(1), -2 * al, al * al + be * be]
            den.append('(z**2 - (%s)*z + (%s))**%d' % (fs(2 * al), fs(al * al + be * be), mult))
        for _ in range(mult):
            a = pmul(a, q)
    zero_poles = rng.choice([0, 0, 1, 2])                      # poles at z = 0: numerator longer than denominator in 1/z
    nb = rng.randint(1, 3)
    b = [F(0)] * rng.randint(0, 2) + [rnd(rng, nz=True)] + [rnd(rng) for _ in range(nb - 1)]
    b = b + [F(0)] * max(0, len(a) + zero_poles - len(b)) if zero_poles else b
    if zero_poles:
        b[-1] = rnd(rng, nz=True)
    # string: H = (sum b_i z^(L-i)) / (z^(L-deg a) * prod factors),  L = max(len) - 1
    L = max(len(a), len(b)) - 1
    num = poly_str(b + [F(0)] * (L + 1 - len(b)))
    zpow = L - (len(a) - 1)
    dstr = '*'.join(den) + ('*z**%d' % zpow if zpow else '')
    return b, a, '(%s)/(%s)' % (num, dstr)


# --- z-transform descriptors ----------------------------------------------------
UNIT = [(F(3, 5), F(4, 5)), (F(5, 13), F(12, 13)), (F(4, 5), F(3, 5)), (F(12, 13), F(5, 13)), (F(8, 17), F(15, 17)),
        (F(-3, 5), F(4, 5)), (F(3, 5), F(-4, 5)), (F(0), F(1)), (F(7, 25), F(24, 25))]


def gen_zt(rng, i, notrig=False):
    nterms = 1 if i % 4 else rng.randint(2, 3)
    terms = []
    trig = {}
    for t in range(nterms):
        cls = rng.choice(['imp', 'one', 'one', 'sin', 'cos', 'imp', 'geo', 'geo'] if not notrig else ['imp', 'one', 'geo', 'geo'])
        d = {'c': rnd(rng, nz=True), 'p': 0, 'geos': [], 'steps': [], 'base': ('one',)}
        if cls == 'imp':
            d['base'] = ('imp', rng.randint(0, 5))
        elif cls in ('sin', 'cos'):
            bi, ci_ = 'b%d' % t, 'c%d' % t
            trig[bi] = rng.choice(UNIT)
            trig[ci_] = rng.choice(UNIT) if rng.random() < 0.7 else (F(1), F(0))
            d['base'] = (cls, bi, ci_, trig[ci_] == (F(1), F(0)))
        if rng.random() < (0.25 if cls in ('sin', 'cos') else 0.45):
            d['p'] = rng.randint(1, 2 if cls in ('sin', 'cos') else 3)
        ng = 1 if cls == 'geo' else (1 if rng.random() < 0.35 else 0)
        for _ in range(ng):
            lam = rng.choice([F(1, 2), F(1, 3), F(2, 3), F(-1, 2), F(2), F(3, 2), F(-2, 3), F(1, 4)])
            d['geos'].append((lam, rng.choice([1, 1, 1, 2, -1]), rng.choice([0, 0, 0, 1, -1, 2])))
        if rng.random() < 0.35 and cls != 'imp':
            d['steps'].append(rng.randint(0, 4))
            if rng.random() < 0.2:
                d['steps'].append(rng.choice([s_ for s_ in range(0, 5) if s_ not in d['steps']]))
        elif cls == 'imp' and rng.random() < 0.25:
            d['steps'].append(rng.randint(0, 4))
        terms.append(d)
    radius = max([F(1)] + [abs(math.prod([lam ** be for lam, be, ce in d['geos']])) if d['geos'] else F(1) for d in terms])
    z0 = (radius * (3 + F(rng.randint(0, 12), 5))) * rng.choice([1, 1, -1])
    return {'kind': 'zt', 'expr': zt_expr_str(terms), 'terms': enc_terms(terms), 'trig': dict((k_, [fs(v[0]), fs(v[1])]) for k_, v in trig.items()),
            'z': fs(z0)}


def enc_terms(terms):
    out = []
    for d in terms:
        out.append({'c': fs(d['c']), 'p': d['p'], 'geos': [[fs(l), be, ce] for l, be, ce in d['geos']], 'steps': d['steps'],
                    'base': list(d['base'])})
    return out


def dec_terms(enc):
    out = []
    for d in enc:
        out.append({'c': F(d['c']), 'p': d['p'], 'geos': [(F(l), be, ce) for l, be, ce in d['geos']], 'steps': d['steps'],
                    'base': tuple(d['base'])})
    return out


def zt_expr_str(terms):
    ts = []
    for d in terms:
        fs_ = ['(%s)' % fs(d['c'])]
        if d['p'] == 1:
            fs_.append('n')
        elif d['p'] > 1:
            fs_.append('n**%d' % d['p'])
        for lam, be, ce in d['geos']:
            fs_.append('(%s)**(%d*n + %d)' % (fs(lam), be, ce))
        for s in d['steps']:
            fs_.append('u(n - %d)' % s)
        b = d['base']
        if b[0] == 'imp':
            fs_.append('delta(n - %d)' % b[1])
        elif b[0] in ('sin', 'cos'):
            fs_.append('%s(%s*n + %s)' % (b[0], b[1], b[2]) if not b[3] else '%s(%s*n)' % (b[0], b[1]))
        ts.append('*'.join(fs_))
    return ' + '.join(ts)


def term_values(d, trig, nmax):
    """exact x[n], n < nmax, of one descriptor (independent of Lcapy and of Coq)"""
    out = []
    b = d['base']
    if b[0] in ('sin', 'cos'):
        cb, sb = trig[b[1]]
        cc, sc = (F(1), F(0)) if b[3] else trig[b[2]]
        c_, s_ = cc, sc
    for n in range(nmax):
        v = d['c'] * F(n) ** d['p'] if d['p'] else d['c']
        for lam, be, ce in d['geos']:
            v *= lam ** (be * n + ce)
        for s in d['steps']:
            if n < s:
                v = F(0)
        if b[0] == 'imp':
            v = v if n == b[1] else F(0)
        elif b[0] in ('sin', 'cos'):
            v *= s_ if b[0] == 'sin' else c_
            c_, s_ = c_ * cb - s_ * sb, s_ * cb + c_ * sb
        out.append(v)
    return out


def coq_term(d, trig):
    b = d['base']
    if b[0] == 'one':
        base = '(BOne (K:=QcF))'
    elif b[0] == 'imp':
        base = '(BImp (K:=QcF) %d)' % b[1]
    else:
        cb, sb = trig[b[1]]
        cc, sc = (F(1), F(0)) if b[3] else trig[b[2]]
        base = '(%s (K:=QcF) %s %s %s %s)' % ('BSin' if b[0] == 'sin' else 'BCos', qc(cb), qc(sb), qc(cc), qc(sc))
    geos = '; '.join('(%s, %s)' % (qc(lam ** be), qc(lam ** ce)) for lam, be, ce in d['geos'])
    geos = '([%s] : list (Qc * Qc))' % geos if geos else '(@nil (Qc * Qc))'
    steps = '[%s]%%nat' % '; '.join('%d' % s for s in d['steps']) if d['steps'] else '(@nil nat)'
    return '%s %d %s %s %s' % (qc(d['c']), d['p'], geos, steps, base)


def coq_term_i(d):
    """descriptor without sinusoid, over Qc[i]"""
    b = d['base']
    base = '(BOne (K:=QcIF))' if b[0] == 'one' else '(BImp (K:=QcIF) %d)' % b[1]
    geos = '; '.join('(qi %s, qi %s)' % (qc(lam ** be), qc(lam ** ce)) for lam, be, ce in d['geos'])
    geos = '([%s] : list (qci * qci))' % geos if geos else '(@nil (qci * qci))'
    steps = '[%s]%%nat' % '; '.join('%d' % s for s in d['steps']) if d['steps'] else '(@nil nat)'
    return '(qi %s) %d %s %s %s' % (qc(d['c']), d['p'], geos, steps, base)


# --- DFT expressions ---------------------------------------------------------------
def cyc_M(N):
    return N * 4 // math.gcd(N, 4) if N % 4 else N


PHASES = [F(1, 2), F(1), F(-1, 2), F(1, 3), F(1, 4), F(-1, 4), F(2, 3), F(1, 6), F(3, 4)]


def lcm(a, b):
    return a * b // math.gcd(a, b)


def gen_dft_expr(rng, i, inverse):
    """signal = sum of terms with a known exact value in Q(zeta) at every index"""
    var = 'k' if inverse else 'n'
    mode = i % 8
    symbolic = (i % 3 != 0)
    if mode in (5, 6, 7):
        # on-bin sinusoids / exponentials with phase, polynomial weights, products with a**n
        symbolic = (i % 2 == 0)
        Ns = rng.choice([[3, 4, 8], [4, 5, 6], [3, 6, 8]]) if symbolic else [rng.choice([4, 8, 6, 3, 5, 4, 8])]
    else:
        Ns = [2, 3, 4, 5, 8] if symbolic else [[1, 2, 4, 3, 6, 4][i % 6]]
        if symbolic and i % 2:
            Ns = [3, 4, 6]
    Nmin = min(Ns)

    def bin_():
        # a bin 0 < m < Nmin that is not the Nyquist bin of a numeric N (sympy rewrites cos(pi n + c) to (-1)**n cos(c))
        cands = [m for m in range(1, Nmin) if symbolic or 2 * m != Ns[0]]
        return rng.choice(cands) if cands else 0
    terms = []
    if mode in (5, 6, 7):
        onlyq = (not symbolic and Ns[0] == 4 and rng.random() < 0.6)      # quarter-turn phases: checked inside Coq (Q(i))
        for t in range(1 if i % 4 else 2):
            c = rnd(rng, nz=True)
            ph = rng.choice([F(1, 2), F(1), F(-1, 2)] if onlyq else PHASES)
            if rng.random() < 0.15:
                ph = F(0)
            cls = rng.choice(['cosp', 'sinp', 'cosp', 'sinp', 'cexpp', 'ncos', 'nsin', 'gcos', 'gsin'] if not inverse else ['cosp', 'sinp', 'cexpp', 'gcos'])
            m = bin_()
            if cls in ('cosp', 'sinp', 'cexpp'):
                terms.append((cls, c, m, ph))
            elif cls in ('ncos', 'nsin'):
                terms.append((cls, c, m, ph, rng.randint(1, 2)))
            else:
                terms.append((cls, c, m, ph, rng.choice([F(1, 2), F(-1, 2), F(2), F(1, 3)])))
    else:
        for t in range(1 if i % 4 else 2):
            cls = rng.choice(['imp', 'const', 'geo', 'cexp', 'cos'] + ([] if inverse else ['ramp', 'ngeo', 'win']))
            c = rnd(rng, nz=True)
            if cls == 'imp':
                terms.append(('imp', c, rng.randint(0, Nmin - 1)))
            elif cls == 'const':
                terms.append(('const', c))
            elif cls == 'geo':
                terms.append(('geo', c, rng.choice([F(1, 2), F(-1, 2), F(1, 3), F(2), F(-2, 3)])))
            elif cls == 'cexp':
                terms.append(('cexp', c, rng.randint(0, Nmin - 1) if Nmin > 1 else 0))
            elif cls == 'cos':
                terms.append(('cos', c, rng.randint(0, Nmin - 1) if Nmin > 1 else 0))
            elif cls == 'ramp':
                terms.append(('ramp', c, rng.randint(1, 2)))
            elif cls == 'ngeo':
                terms.append(('ngeo', c, rng.choice([F(1, 2), F(-1, 3), F(2)])))
            elif cls == 'win':
                terms.append(('win', c, rng.randint(0, Nmin - 1)))
    if mode == 4 and not inverse and i % 16 == 4:
        # the alternating sequence (-1)**n: a geometric sequence on the unit circle
        symbolic = False
        Ns = [rng.choice([2, 4, 6, 8, 3, 5])]
        terms = [('alt', rnd(rng, nz=True))]
    return mk_dft_case(terms, Ns, symbolic, inverse)


def mk_dft_case(terms, Ns, symbolic, inverse):
    var = 'k' if inverse else 'n'
    s = []
    NN = 'N' if symbolic else '%d' % Ns[0]
    sg = '-' if inverse else ''

    def ang(m, ph):
        a = '2*pi*%d*%s/%s' % (m, var, NN)
        if ph != 0:
            a += ' + (%s)*pi' % fs(ph)
        return a
    for t in terms:
        c = '(%s)' % fs(t[1])
        if t[0] == 'imp':
            s.append('%s*delta(%s - %d)' % (c, var, t[2]))
        elif t[0] == 'const':
            s.append(c)
        elif t[0] == 'geo':
            s.append('%s*(%s)**%s' % (c, fs(t[2]), var))
        elif t[0] == 'alt':
            s.append('%s*(-1)**%s' % (c, var))
        elif t[0] == 'cexp':
            s.append('%s*exp(%sj*2*pi*%d*%s/%s)' % (c, sg, t[2], var, NN))
        elif t[0] == 'cos':
            s.append('%s*cos(2*pi*%d*%s/%s)' % (c, t[2], var, NN))
        elif t[0] == 'ramp':
            s.append('%s*%s**%d' % (c, var, t[2]) if t[2] > 1 else '%s*%s' % (c, var))
        elif t[0] == 'ngeo':
            s.append('%s*%s*(%s)**%s' % (c, var, fs(t[2]), var))
        elif t[0] == 'win':
            s.append('%s*u(%s - %d)' % (c, var, t[2]))
        elif t[0] == 'cosp':
            s.append('%s*cos(%s)' % (c, ang(t[2], t[3])))
        elif t[0] == 'sinp':
            s.append('%s*sin(%s)' % (c, ang(t[2], t[3])))
        elif t[0] == 'cexpp':
            s.append('%s*exp(j*(%s))' % (c, ang(t[2], t[3])))
        elif t[0] in ('ncos', 'nsin'):
            s.append('%s*%s**%d*%s(%s)' % (c, var, t[4], t[0][1:], ang(t[2], t[3])))
        elif t[0] in ('gcos', 'gsin'):
            s.append('%s*(%s)**%s*%s(%s)' % (c, fs(t[4]), var, t[0][1:], ang(t[2], t[3])))
    phased = any(t[0] in ('cosp', 'sinp', 'cexpp', 'ncos', 'nsin', 'gcos', 'gsin') and F(t[3]) * 2 % 1 != 0 for t in terms)
    Ms = dict((str(N), lcm(cyc_M(N), 24) if phased else cyc_M(N)) for N in Ns)
    case = {'kind': 'expridft' if inverse else 'exprdft', 'expr': ' + '.join(s), 'Ns': Ns, 'Ms': Ms,
            'sig': [[t[0], fs(t[1])] + [fs(v) if isinstance(v, Fraction) else v for v in t[2:]] for t in terms], 'inverse': inverse}
    if not symbolic:
        case['N'] = Ns[0]
    return case


class Cy:
    """Q(zeta_M) with exact arithmetic (independent re-implementation used by the oracle)"""

    def __init__(self, M):
        import sympy as sp
        self.sp = sp
        self.M = M
        self.x = sp.Symbol('x')
        self.Phi = sp.Poly(sp.cyclotomic_poly(M, self.x), self.x, domain='QQ')
        self.deg = self.Phi.degree()

    def zeta(self, e):
        return self.sp.Poly(self.x ** (int(e) % self.M), self.x, domain='QQ').rem(self.Phi)

    def const(self, c):
        c = F(c)
        return self.sp.Poly(self.sp.Rational(c.numerator, c.denominator), self.x, domain='QQ')

    def mul(self, a, b):
        return (a * b).rem(self.Phi)

    def coeffs(self, a):
        cs = a.all_coeffs()[::-1]
        cs = cs + [self.sp.Integer(0)] * (self.deg - len(cs))
        return ['%d/%d' % (c.p, c.q) for c in cs]


def sig_value(C, sig, idx, N, inverse):
    """exact value of the generated signal at index idx (element of Q(zeta_M))"""
    M = C.M
    tot = C.const(0)
    for t in sig:
        kind, c = t[0], F(t[1])
        if kind == 'imp':
            v = C.const(c if idx == t[2] else 0)
        elif kind == 'const':
            v = C.const(c)
        elif kind == 'geo':
            v = C.const(c * F(t[2]) ** idx)
        elif kind == 'cexp':
            e = t[2] * idx * (M // N)
            v = C.zeta(-e if inverse else e) * C.const(c)
        elif kind == 'cos':
            e = t[2] * idx * (M // N)
            v = (C.zeta(e) + C.zeta(-e)) * C.const(c / 2)
        elif kind == 'ramp':
            v = C.const(c * F(idx) ** t[2])
        elif kind == 'ngeo':
            v = C.const(c * idx * F(t[2]) ** idx)
        elif kind == 'win':
            v = C.const(c if idx >= t[2] else 0)
        elif kind == 'alt':
            v = C.const(c * (-1) ** idx)
        elif kind in ('cosp', 'sinp', 'cexpp', 'ncos', 'nsin', 'gcos', 'gsin'):
            e2 = 2 * t[2] * idx * (M // N) + F(t[3]) * M          # twice the exponent of zeta_M
            if e2 % 2:
                raise ValueError('phase not representable in Q(zeta_%d)' % M)
            e = int(e2 // 2)
            if kind == 'cexpp':
                v = C.zeta(e)
            elif kind[-3:] == 'cos' or kind == 'cosp':
                v = (C.zeta(e) + C.zeta(-e)) * C.const(F(1, 2))
            else:
                v = C.mul(C.zeta(e) - C.zeta(-e), C.zeta(3 * M // 4)) * C.const(F(1, 2))     # 1/(2j) = -j/2
            w_ = c
            if kind in ('ncos', 'nsin'):
                w_ = c * F(idx) ** t[4]
            elif kind in ('gcos', 'gsin'):
                w_ = c * F(t[4]) ** idx
            v = v * C.const(w_)
        tot = tot + v
    return tot.rem(C.Phi)


def dft_sum(C, xs, N, k, inverse):
    """finite defining sum in Q(zeta_M): sum_n x[n] e^{-+ 2 pi j n k / N}"""
    tot = C.const(0)
    step = C.M // N
    for n, xv in enumerate(xs):
        e = n * k * step
        tot = tot + C.mul(xv, C.zeta(e if inverse else -e))
    tot = tot.rem(C.Phi)
    if inverse:
        tot = tot * C.const(F(1, N))
    return tot


# ------------------------------------------------------------------ Coq generation
TABLES_HEADER = '''(* GENERATED by checks/c13.py from the translated table entries.  Do not edit. *)
Require Import LT.FieldSec LT.SeqFilter LT.SeqDFT LT.SeqZ Gen.ZTableGen Gen.DFTTableGen Gen.IZTableGen.
Local Open Scope F_scope.
Section Obl.
Variable K : fld.
Add Field KFo : (fth K).
Definition pq_eval (X : PQ K) (w : K) : K := evalw (fst X) w / evalw (snd X) w.
Ltac np_tac A B p :=
  let c := fresh "c" in let q := fresh "q" in let l := fresh "l" in let len := fresh "len" in let Hq := fresh "Hq" in
  intros c q l len Hq;
  assert (H1 : 1 - q <> 0) by (intros E; apply Hq; transitivity (1 - (1 - q)); [ring|rewrite E; ring]);
  assert (Hp : pw (1 - q) (p + 1) <> 0) by (apply pw_nz; exact H1);
  pose (T := fun u : nat => pw (1 - q) (p + 1) * pw (ofnat u) p);
  assert (H0 : A K q l - q * B K q l = T l) by (unfold A, B, T; cbn [SeqFilter.pw Nat.add]; ring);
  assert (Hs : forall u, B K q u - q * B K q (S u) = T (S u)) by (intros u; unfold B, T; rewrite ofnat_S; cbn [SeqFilter.pw Nat.add]; ring);
  pose proof (tele_sum K q l (A K q l) (B K q) T H0 Hs len) as E;
  unfold dft_np_q;
  transitivity (c / pw (1 - q) (p + 1) * sumn (S len) (fun i => T (l + i)%nat * pw q (l + i)));
  [ rewrite E; field; exact Hp
  | rewrite <- sumn_scal; apply sumn_ext; intros i Hi; unfold T; field; exact Hp ].
Ltac ev := unfold pq_eval; cbn [zt_np zt_geos zt_steps zt_base fst snd]; unfold one_minus_w;
  rewrite ?evalw_pshift; unfold evalw; cbn [fold_right SeqFilter.pw].
'''
TRIGMAP = {'cos_b': 'cb', 'sin_b': 'sb', 'cos_c': 'cc', 'sin_c': 'sc', 'sin_bmc': '(sb * cc - cb * sc)', 'cos_bmc': '(cb * cc + sb * sc)'}


def gen_tables(zt, dt, it=None):
    out = [TABLES_HEADER]
    names = []

    def thm(name, stmt, proof):
        out.append('Theorem %s : %s.\nProof. %s Qed.\n' % (name, stmt, proof))
        names.append(name)
    thm('gen_zt_one', 'forall w : K, 1 - w <> 0 -> zt_one w = pq_eval (zt_np 0 [] [] BOne) w',
        'intros w H. unfold zt_one. ev. field. nz.')
    thm('gen_zt_impulse', 'forall (w : K) (d : nat), zt_impulse w d = pq_eval (zt_np 0 [] [] (BImp d)) w',
        'intros w d. unfold zt_impulse. ev. field. apply one_nz.')
    thm('gen_zt_step0', 'forall w : K, 1 - w <> 0 -> zt_step0 w = pq_eval (zt_np 0 [] [] BOne) w',
        'intros w H. unfold zt_step0. ev. field. nz.')
    thm('gen_zt_step', 'forall (w : K) (d : nat), 1 - w <> 0 -> zt_step w d = pq_eval (zt_np 0 [] [d] BOne) w',
        'intros w d H. unfold zt_step. ev. field. nz.')
    for nm, B in (('sin', 'BSin'), ('cos', 'BCos')):
        vs = getattr(zt, nm + '_vars')
        args = ' '.join(TRIGMAP[v] for v in vs)
        thm('gen_zt_' + nm,
            'forall w cb sb cc sc : K, 1 - (cb + cb) * w + w * w <> 0 -> zt_%s w %s = pq_eval (zt_np 0 [] [] (%s cb sb cc sc)) w' % (nm, args, B),
            'intros w cb sb cc sc H. unfold zt_%s. ev. field. repeat split; intros E; apply H; rewrite <- E; ring.' % nm)
    thm('gen_dft_const_q',
        'forall (c e q : K) (lower upper : nat), q <> 1 -> (lower <= upper)%nat -> '
        'dft_const_q c e q lower upper = sumn (upper - lower + 1) (fun i => c * e * pw q (lower + i))',
        'intros c e q lower upper Hq Hle. unfold dft_const_q. rewrite sumn_scal, geom_range by exact Hq. '
        'assert (H1 : 1 - q <> 0) by (intros E; apply Hq; transitivity (1 - (1 - q)); [ring|rewrite E; ring]). field. exact H1.')
    thm('gen_dft_const_1',
        'forall (c e : K) (lower upper : nat), dft_const_1 c e lower upper = sumn (upper - lower + 1) (fun i => c * e * pw 1 (lower + i))',
        'intros c e lower upper. unfold dft_const_1. rewrite (sumn_ext K _ _ (fun _ => c * e)) by (intros; rewrite pw_1; ring). '
        'rewrite sumn_const. reflexivity.')
    thm('gen_dft_delta_q',
        'forall (W : K) (N n0 k : nat) (c : K), (n0 < N)%nat -> '
        'dft_delta_q c (pw W k) n0 = dft W N (fun n => if Nat.eq_dec n n0 then c else 0) k',
        'intros W N n0 k c H. unfold dft_delta_q, dft. rewrite (sumn_single K N _ n0 H). '
        '- destruct (Nat.eq_dec n0 n0); [|congruence]. rewrite pw_mul. reflexivity. '
        '- intros i Hi Hne. destruct (Nat.eq_dec i n0); [contradiction|ring].')
    # n**p closed forms of termXq (p = 1, 2, 3): equal to the defining window sum  sum_{n=lower}^{upper} c n^p q^n
    for pv in (1, 2, 3):
        thm('gen_dft_np%d' % pv,
            'forall (c q : K) (l len : nat), q <> 1 -> '
            'dft_np_q c q (dft_np%(p)d_A q l) (dft_np%(p)d_B q (l + len)) l (l + len) %(p)d = '
            'sumn (S len) (fun i => c * pw (ofnat (l + i)) %(p)d * pw q (l + i))' % {'p': pv},
            'np_tac (@dft_np%d_A) (@dft_np%d_B) %d%%nat.' % (pv, pv, pv))
    # sinusoid branches of termXq: the copy carrying exp(+j b n) must be shifted to bin +k0, the other to bin N - k0
    out.append('Definition tone (W : K) (s : bool) (k0 n : nat) : K := if s then pw (1 / W) (k0 * n) else pw W (k0 * n).')
    out.append('Definition bin (N k0 : nat) (t : bool) : nat := if t then k0 else (N - k0)%nat.\n')
    for nm in ('cos', 'sin'):
        thm('gen_dft_%s_shift' % nm,
            'forall (W : K) (N : nat), (0 < N)%%nat -> pw W N = 1 -> (forall k, (0 < k < N)%%nat -> pw W k <> 1) -> '
            'forall (c E Ei J : K) (k0 k : nat), (0 < k0 < N)%%nat -> (k < N)%%nat -> '
            'dft W N (fun n => dft_%(n)s_c1 c E Ei J * tone W dft_%(n)s_s1 k0 n + dft_%(n)s_c2 c E Ei J * tone W dft_%(n)s_s2 k0 n) k = '
            'dft_%(n)s_c1 c E Ei J * (if Nat.eq_dec k (bin N k0 dft_%(n)s_t1) then ofnat N else 0) + '
            'dft_%(n)s_c2 c E Ei J * (if Nat.eq_dec k (bin N k0 dft_%(n)s_t2) then ofnat N else 0)' % {'n': nm},
            'intros W N HN WN Wp c E Ei J k0 k H0 Hk. '
            'cbv beta iota delta [tone bin dft_%(n)s_s1 dft_%(n)s_s2 dft_%(n)s_t1 dft_%(n)s_t2]. '
            'apply (dft_two_tone K W N HN WN Wp); assumption.' % {'n': nm})
    thm('gen_dft_cos_signal',
        'forall (W c E Ei J : K) (k0 n : nat), '
        'dft_cos_c1 c E Ei J * tone W dft_cos_s1 k0 n + dft_cos_c2 c E Ei J * tone W dft_cos_s2 k0 n = '
        'c * ((E * pw (1 / W) (k0 * n) + Ei * pw W (k0 * n)) / (1 + 1))',
        'intros. cbv beta iota delta [tone dft_cos_s1 dft_cos_s2 dft_cos_c1 dft_cos_c2]. field. exact (fchar0 K 2).')
    thm('gen_dft_sin_signal',
        'forall (W c E Ei J : K) (k0 n : nat), J <> 0 -> '
        'dft_sin_c1 c E Ei J * tone W dft_sin_s1 k0 n + dft_sin_c2 c E Ei J * tone W dft_sin_s2 k0 n = '
        'c * ((E * pw (1 / W) (k0 * n) - Ei * pw W (k0 * n)) / ((1 + 1) * J))',
        'intros W c E Ei J k0 n HJ. cbv beta iota delta [tone dft_sin_s1 dft_sin_s2 dft_sin_c1 dft_sin_c2]. field. '
        'split; [exact HJ | exact (fchar0 K 2)].')
    thm('gen_dft_cexp_shift',
        'forall (W : K) (N : nat), (0 < N)%nat -> pw W N = 1 -> (forall k, (0 < k < N)%nat -> pw W k <> 1) -> '
        'forall (c : K) (k0 k : nat), (k0 < N)%nat -> (k < N)%nat -> '
        'dft W N (fun n => c * tone W dft_cexp_s1 k0 n) k = c * (if Nat.eq_dec k (bin N k0 dft_cexp_t1) then ofnat N else 0)',
        'intros W N HN WN Wp c k0 k H0 Hk. cbv beta iota delta [tone bin dft_cexp_s1 dft_cexp_t1]. '
        'rewrite <- (dft_cexp K W N HN WN Wp k0 k H0 Hk). unfold dft. rewrite <- sumn_scal. apply sumn_ext. intros; ring.')
    # InverseZTransformer.ratfun: with bino = n (n-1) ... (n-i+2) (the loop `bino = 1; ...; bino *= n - i + 1`),
    # the prefactor times p^n is the binomial sequence C(n, i-1) p^(n-i+1) of zt_binom
    thm('gen_izt_pair_prefac',
        'forall (lam : K) (n i : nat), lam <> 0 -> (1 <= i)%nat -> '
        'izt_pair_prefac (ofnat (ffact n (i - 1))) lam i * pw lam n = gbin lam (i - 1) n',
        'intros lam n i Hl Hi. unfold izt_pair_prefac. replace (1 - Z.of_nat i)%Z with (- Z.of_nat (i - 1))%Z by lia. '
        'apply prefac_binom. exact Hl.')
    thm('gen_izt_real_term',
        'forall (r p : K) (n i : nat), p <> 0 -> (1 <= i)%nat -> '
        'izt_real_term r (ofnat (ffact n (i - 1))) p i * pw p n = r * gbin p (i - 1) n',
        'intros r p n i Hp Hi. rewrite <- (prefac_binom K p n (i - 1) Hp). unfold izt_real_term. '
        'replace (1 - Z.of_nat i)%Z with (- Z.of_nat (i - 1))%Z by lia. field. apply fact_nz.')
    thm('gen_izt_bino_step',
        'forall n i : nat, (1 <= i <= n)%nat -> ffact n i = (ffact n (i - 1) * (n - i + 1))%nat',
        'intros n i Hi. destruct i as [|j]; [lia|]. cbn [ffact]. replace (S j - 1)%nat with j by lia. '
        'replace (n - S j + 1)%nat with (n - j)%nat by lia. reflexivity.')
    out.append('End Obl.\n')
    out.append('\n'.join('Print Assumptions %s.' % n for n in names))
    return '\n'.join(out) + '\n', names


CASES_HEADER = '''(* GENERATED correspondence evaluation (checks/c13.py).  Do not edit. *)
Require Import LT.FieldSec LT.SeqFilter LT.SeqDFT LT.SeqQcI LT.SeqZ.
From Coq Require Import QArith Qcanon.
Definition leqb (u v : list Qc) : bool :=
  (length u =? length v)%nat && forallb (fun p => qc_eqb (fst p) (snd p)) (combine u v).
Definition oeqb (u : list Qc) (v : list (option Qc)) : bool :=
  (length u =? length v)%nat && forallb (fun p => match snd p with Some w => qc_eqb (fst p) w | None => true end) (combine u v).
Definition cleqb (u v : list qci) : bool :=
  (length u =? length v)%nat && forallb (fun p => qci_eqb (fst p) (snd p)) (combine u v).
Definition pleqb (u v : list (nat * Qc)) : bool :=
  (length u =? length v)%nat && forallb (fun p => (fst (fst p) =? fst (snd p))%nat && qc_eqb (snd (fst p)) (snd (snd p))) (combine u v).
Definition nzp (l : list (nat * Qc)) : list (nat * Qc) := filter (fun p => negb (qc_eqb (snd p) 0%Qc)) l.
Definition enum (l : list Qc) : list (nat * Qc) := combine (seq 0 (length l)) l.
Definition xoff (n0 : Z) (l : list Qc) : Z -> Qc := fun n => lfun (K:=QcF) l (n - n0)%Z.
Definition sval (n0 : Z) (l : list Qc) (m : Z) : Qc := if (m <? n0)%Z then 0%Qc else nth (Z.to_nat (m - n0)) l 0%Qc.
Definition zrange (lo : Z) (len : nat) : list Z := map (fun i => (lo + Z.of_nat i)%Z) (seq 0 len).
Definition pqv (X : PQ QcF) (w : Qc) : Qc := (evalw (K:=QcF) (fst X) w / evalw (K:=QcF) (snd X) w)%Qc.
Definition qi (q : Qc) : qci := QI q 0%Qc.
Definition pqvi (X : PQ QcIF) (w : qci) : qci := cidiv (evalw (K:=QcIF) (fst X) w) (evalw (K:=QcIF) (snd X) w).
Definition zpkv (Z P : list Qc) (K z : Qc) : Qc :=
  (K * fold_right (fun r acc => (z - r) * acc) 1 Z / fold_right (fun r acc => (z - r) * acc) 1 P)%Qc.
Definition W1 : qci := ci1.  Definition W2 : qci := QI (qc (-1) 1) (qc 0 1).  Definition W4 : qci := QI (qc 0 1) (qc (-1) 1).
'''


def Wn(N):
    return {1: 'W1', 2: 'W2', 4: 'W4'}[N]


def coq_case(c, r, extra):
    """boolean Coq term: model(input) == observed; None when nothing to compare.
    May add python-side structural mismatches to extra['struct']."""
    k = c['kind']
    if k == 'keyhist':
        return None
    if k == 'response':
        n0, n1 = c['ni']
        if r['n'] != list(range(n0, n1 + 1)):
            extra['struct'] = 'index list %s != range(%d, %d)' % (r['n'], n0, n1 + 1)
        b, a, ic, x = ([F(v) for v in c[key]] for key in ('b', 'a', 'ic', 'x'))
        return 'leqb (response (K:=QcF) %s %s (xoff %s %s) %s %s %d) %s' % (
            qlist(b), qlist(a), zlit(c['xn0']), qlist(x), qlist(ic), zlit(n0), n1 + 1, qlist([F(v) for v in r['vals']]))
    if k == 'tf':
        return 'qc_eqb (tf_model (K:=QcF) %s %s %s) %s' % (qlist([F(v) for v in c['b']]), qlist([F(v) for v in c['a']]), qc(c['z']), qc(r['val']))
    if k == 'invtf':
        return 'qc_eqb (tf_model (K:=QcF) %s %s %s) %s' % (qlist([F(v) for v in c['a']]), qlist([F(v) for v in c['b']]), qc(c['z']), qc(r['val']))
    if k == 'detf':
        return 'qc_eqb (tf_model (K:=QcF) %s %s %s) %s' % (qlist([F(v) for v in c['b']]), qlist([F(v) for v in c['a']]), qc(c['z']), qc(r['val']))
    if k == 'freqresp':
        if 'val' not in r:
            return None
        ql = lambda l: '([%s] : list qci)' % '; '.join('qi %s' % qc(v) for v in l)
        E = '(QI %s %s)' % (qc(c['e'][0]), qc(c['e'][1]))
        return 'qci_eqb (tf_model (K:=QcIF) %s %s (cimul %s %s)) %s' % (ql(c['b']), ql(c['a']), E, E, ci(r['val']))
    if k == 'zpk':
        return 'qc_eqb (zpkv %s %s %s %s) %s' % (qlist([F(v) for v in c['Z']]), qlist([F(v) for v in c['P']]), qc(c['K']), qc(c['z']), qc(r['val']))
    if k == 'asab':
        z = F(c['z'])
        return ('qc_eqb (evalw (K:=QcF) %s %s * evald (K:=QcF) %s %s)%%Qc (evalw (K:=QcF) %s %s * evald (K:=QcF) %s %s)%%Qc'
                % (qlist([F(v) for v in r['b']]), qc(1 / z), qlist([F(v) for v in c['dn_req']]), qc(z),
                   qlist([F(v) for v in r['a']]), qc(1 / z), qlist([F(v) for v in c['nn_req']]), qc(z)))
    if k == 'zde':
        def pl(d):
            items = sorted((int(m), F(v)) for m, v in d.items())
            return '([%s] : list (nat * Qc))' % '; '.join('(%d%%nat, %s)' % (m, qc(v)) for m, v in items) if items else '(@nil (nat * Qc))'
        if r['lhs_x']:
            extra['struct'] = 'input terms on the left-hand side'
        return ('(let M := from_tf (K:=QcF) %s %s true in let T := de_terms (K:=QcF) (snd M) 0 true in '
                'pleqb (nzp (fst T)) %s && pleqb (nzp (snd T)) %s && pleqb (nzp (enum (fst M))) %s)'
                % (qlist([F(v) for v in r['nn']]), qlist([F(v) for v in r['dn']]), pl(r['lhs_y']), pl(r['rhs_y']), pl(r['rhs_x'])))
    if k == 'de':
        def pl(d):
            items = sorted((int(m), F(v)) for m, v in d.items())
            return '([%s] : list (nat * Qc))' % '; '.join('(%d%%nat, %s)' % (m, qc(v)) for m, v in items) if items else '(@nil (nat * Qc))'
        if r['lhs_x']:
            extra['struct'] = 'input terms on the left-hand side'
        a = qlist([F(v) for v in c['a']])
        return ('(let M := de_terms (K:=QcF) %s 0 true in pleqb (nzp (fst M)) %s && pleqb (nzp (snd M)) %s) && pleqb (nzp (enum %s)) %s'
                % (a, pl(r['lhs_y']), pl(r['rhs_y']), qlist([F(v) for v in c['b']]), pl(r['rhs_x'])))
    if k in ('impulse', 'izt'):
        b, a = [F(v) for v in c['b']], [F(v) for v in c['a']]
        obs = [None if v is None else F(v) for v in r['vals']]
        return 'oeqb (response (K:=QcF) %s %s (deltaZ (K:=QcF)) (zeros (K:=QcF) %d) 0%%Z %d) %s' % (
            qlist(b), qlist(a), len(a) - 1, c['N'], qolist(obs))
    if k == 'step':
        b, a = [F(v) for v in c['b']], [F(v) for v in c['a']]
        obs = [None if v is None else F(v) for v in r['vals']]
        return 'oeqb (response (K:=QcF) %s %s (xoff 0%%Z %s) (zeros (K:=QcF) %d) 0%%Z %d) %s' % (
            qlist(b), qlist(a), qlist([F(1)] * c['N']), len(a) - 1, c['N'], qolist(obs))
    if k == 'zic':
        b, a, ic, xic = ([F(v) for v in c[key]] for key in ('b', 'a', 'ic', 'xic'))
        w = 1 / F(c['z'])
        if c.get('left', True):
            num = 'icpoly (K:=QcF) %s %s %s %s' % (qlist(a), qlist(b), qlist(ic), qlist(xic))
        else:
            num = ('map (fun n => (conv (K:=QcF) (lpoly (K:=QcF) %s) (lpoly (K:=QcF) %s) n - conv (K:=QcF) (lpoly (K:=QcF) %s) (lpoly (K:=QcF) %s) n)%%Qc) (seq 0 %d)'
                   % (qlist(a), qlist(ic), qlist(b), qlist(xic), len(a) - 1))
        return 'qc_eqb (evalw (K:=QcF) (%s) %s / evalw (K:=QcF) %s %s)%%Qc %s' % (num, qc(w), qlist(a), qc(w), qc(r['val']))
    if k == 'fromtf':
        return '(let M := from_tf (K:=QcF) %s %s true in leqb (fst M) %s && leqb (snd M) %s)' % (
            qlist([F(v) for v in r['nn']]), qlist([F(v) for v in r['dn']]), qlist([F(v) for v in r['b']]), qlist([F(v) for v in r['a']]))
    if k == 'lfilter':
        n0 = c['xn0']
        if r['n'] != list(range(n0, n0 + len(c['x']))):
            extra['struct'] = 'index list changed'
        return 'leqb (lfilter_ref (K:=QcF) %s %s %s) %s' % (qlist([F(v) for v in c['b']]), qlist([F(v) for v in c['a']]),
                                                          qlist([F(v) for v in c['x']]), qlist([F(v) for v in r['vals']]))
    if k == 'convolve':
        lo = min(c['xn0'] + c['hn0'], r['n'][0] if r['n'] else 0) - 1
        hi = max(c['xn0'] + c['hn0'] + len(c['x']) + len(c['h']), (r['n'][-1] if r['n'] else 0)) + 1
        if r['n'] and r['n'] != list(range(r['n'][0], r['n'][0] + len(r['n']))):
            extra['struct'] = 'non-contiguous index list'
        return ('forallb (fun m => qc_eqb (sval %s (convolve_ref (K:=QcF) %s %s) m) (sval %s %s m)) (zrange %s %d)'
                % (zlit(c['xn0'] + c['hn0']), qlist([F(v) for v in c['x']]), qlist([F(v) for v in c['h']]),
                   zlit(r['n'][0] if r['n'] else 0), qlist([F(v) for v in r['vals']]), zlit(lo), hi - lo + 1))
    if k == 'seqzt':
        n0 = c['n0']
        x = [F(v) for v in c['x']]
        exp_n = list(range(n0, n0 + len(x)))
        if r['tn'] != exp_n or r['back']['n'] != exp_n:
            extra['struct'] = 'indices of the transform/inverse %s / %s != %s' % (r['tn'], r['back']['n'], exp_n)
        model = 'map (fun i => (nth i %s 0 * zpw (K:=QcF) %s (- (%s + Z.of_nat i)))%%Qc) (seq 0 %d)' % (qlist(x), qc(c['z']), zlit(n0), len(x))
        tot = 'fold_right Qcplus 0%%Qc (%s)' % model
        return ('leqb (%s) %s && leqb (%s) %s && qc_eqb (%s) %s && leqb %s %s'
                % (model, qlist([F(v) for v in r['terms']]), model, qlist([F(v) for v in r['call']]), tot, qc(r['impulses']),
                   qlist(x), qlist([F(v) for v in r['back']['vals']])))
    if k == 'zt':
        if 'val' not in r:
            return None
        terms = dec_terms(c['terms'])
        trig = dict((k_, (F(v[0]), F(v[1]))) for k_, v in c['trig'].items())
        w = 1 / F(c['z'])
        s = ' + '.join('pqv (zt_term (K:=QcF) %s) %s' % (coq_term(d, trig), qc(w)) for d in terms)
        xv = [sum(col) for col in zip(*[term_values(d, trig, 6) for d in terms])]
        sem = ' + '.join('sem_term (K:=QcF) %s n' % coq_term(d, trig) for d in terms)
        return 'qc_eqb (%s)%%Qc %s && leqb (map (fun n => (%s)%%Qc) (seq 0 6)) %s' % (s, qc(r['val']), sem, qlist(xv))
    if k == 'dtft':
        if 'val' not in r:
            return None
        cb, sb = F(c['e'][0]), F(c['e'][1])
        obs = ci(r['val'])
        if 'x' in c:
            x = [F(v) for v in c['x']]
            terms = ' :: '.join('cimul (qi %s) (zpw (K:=QcIF) (QI %s %s) (%d)%%Z)' % (qc(v), qc(cb), qc(sb), -(c['n0'] + i)) for i, v in enumerate(x))
            return 'qci_eqb (fold_right ciadd ci0 (%s :: nil)) %s' % (terms, obs)
        terms = dec_terms(c['terms'])
        tot = ' :: '.join('pqvi (zt_term (K:=QcIF) %s) (QI %s %s)' % (coq_term_i(d), qc(cb), qc(-sb)) for d in terms)
        return 'qci_eqb (fold_right ciadd ci0 (%s :: nil)) %s' % (tot, obs)
    if k == 'ztrt':
        if 'vals' not in r:
            return None
        terms = dec_terms(c['terms'])
        sem = ' + '.join('sem_term (K:=QcF) %s n' % coq_term(d, {}) for d in terms)
        return 'oeqb (map (fun n => (%s)%%Qc) (seq 0 %d)) %s' % (sem, c['N'], qolist([None if v is None else F(v) for v in r['vals']]))
    if k == 'seqdft':
        N = len(c['x'])
        if N not in (1, 2, 4):
            return None
        if any(v is None for v in r['vals']) or any(v is None for v in r['back']):
            return None
        xs = cilist([[v, '0/1'] for v in c['x']])
        return ('cleqb (map (seq_dft (K:=QcIF) %s %s %s) (seq 0 %d)) %s && cleqb (map (seq_idft (K:=QcIF) %s 0%%Z %s) (seq 0 %d)) %s'
                % (Wn(N), zlit(c['n0']), xs, N, cilist(r['vals']), Wn(N), cilist(r['vals']), N, cilist(r['back'])))
    if k in ('exprdft', 'expridft'):
        if 'vals' not in r:
            return None
        parts = []
        for N in c['Ns']:
            if N not in (1, 2, 4) or c['Ms'][str(N)] != 4:
                continue
            obs = r['vals'][str(N)]
            if any(v is None or v == 'singular' for v in obs):
                continue
            C = get_cy(4)
            xs = [C.coeffs(sig_value(C, c['sig'], i, N, c['inverse'])) for i in range(N)]
            f = 'idft' if c['inverse'] else 'dft'
            parts.append('cleqb (map (%s (K:=QcIF) %s %d (fun i => nth i %s ci0)) (seq 0 %d)) %s' % (f, Wn(N), N, cilist(xs), N, cilist(obs)))
        return ' && '.join(parts) if parts else None
    return None


_cy = {}


def get_cy(M):
    if M not in _cy:
        _cy[M] = Cy(M)
    return _cy[M]


# ------------------------------------------------------------------ oracles (independent of the models)
def oracle(c, r):
    """returns (ok: True/False/None, detail)"""
    k = c['kind']
    if k == 'keyhist':
        bad = [i for i, v in enumerate(r['same']) if not v]
        if not bad:
            return True, ''
        i = bad[0]
        return False, 'call %d %s on an instance that served %s before returns %s; a fresh instance returns %s' % (
            i, c['calls'][i], c['calls'][:i], r['shared'][i], r['fresh'][i])
    if k == 'response':
        b, a, ic, x = ([F(v) for v in c[key]] for key in ('b', 'a', 'ic', 'x'))
        ys = dict(zip(r['n'], [F(v) for v in r['vals']]))
        Ni = len(ic)

        def y(n):
            if n in ys:
                return ys[n]
            if -Ni <= n < 0:
                return ic[-n - 1]
            return None

        def xv(n):
            j = n - c['xn0']
            return x[j] if 0 <= j < len(x) else F(0)
        for j in range(Ni):
            if (-1 - j) in ys and ys[-1 - j] != ic[j]:
                return False, 'y[%d] = %s but ic[%d] = %s' % (-1 - j, ys[-1 - j], j, ic[j])
        for n in ys:
            if n < -Ni and ys[n] != 0:
                return False, 'y[%d] = %s before the initial conditions' % (n, ys[n])
        checked = 0
        for n in range(0, c['ni'][1] + 1):
            vals = [y(n - kk) for kk in range(len(a))]
            if any(v is None for v in vals):
                continue
            lhs = sum(ak * v for ak, v in zip(a, vals))
            rhs = sum(bl * xv(n - l) for l, bl in enumerate(b))
            checked += 1
            if lhs != rhs:
                return False, 'difference equation fails at n=%d: lhs %s rhs %s' % (n, lhs, rhs)
        return (True, '') if checked else (None, '')
    if k == 'tf':
        b, a = [F(v) for v in c['b']], [F(v) for v in c['a']]
        w = 1 / F(c['z'])
        den = sum(v * w ** i for i, v in enumerate(a))
        if den == 0:
            return None, ''
        return (F(r['val']) * den == sum(v * w ** i for i, v in enumerate(b))), 'H(z) A(1/z) != B(1/z)'
    if k in ('invtf', 'detf'):
        b, a = [F(v) for v in c['b']], [F(v) for v in c['a']]
        w = 1 / F(c['z'])
        B, A = sum(v * w ** i for i, v in enumerate(b)), sum(v * w ** i for i, v in enumerate(a))
        if A == 0 or B == 0:
            return None, ''
        return (F(r['val']) == (A / B if k == 'invtf' else B / A)), 'value %s, expected %s' % (r['val'], A / B if k == 'invtf' else B / A)
    if k == 'freqresp':
        if 'val' not in r:
            return None, ''
        cr, ci_ = F(c['e'][0]), F(c['e'][1])
        zr, zi = cr * cr - ci_ * ci_, 2 * cr * ci_            # z = exp(j 2 pi f dt) = (c + j s)^2
        def ev(l):
            tr_, ti_, pr, pi_ = F(0), F(0), F(1), F(0)
            for v in l:
                tr_ += F(v) * pr
                ti_ += F(v) * pi_
                pr, pi_ = pr * zr + pi_ * zi, pi_ * zr - pr * zi       # times 1/z = conj(z)
            return tr_, ti_
        (br, bi), (ar, ai) = ev(c['b']), ev(c['a'])
        d = ar * ar + ai * ai
        if d == 0:
            return None, ''
        hr, hi = (br * ar + bi * ai) / d, (bi * ar - br * ai) / d
        return (hr == F(r['val'][0]) and hi == F(r['val'][1])), 'frequency response %s, H(e^{j2 pi f dt}) = (%s, %s)' % (r['val'], hr, hi)
    if k == 'zpk':
        z = F(c['z'])
        num = F(c['K']) * math.prod([z - F(v) for v in c['Z']])
        den = math.prod([z - F(v) for v in c['P']])
        if den == 0:
            return None, ''
        return (F(r['val']) == num / den), 'H(z) = %s, K prod(z - z_i)/prod(z - p_i) = %s' % (r['val'], num / den)
    if k in ('zde', 'asab'):
        z = F(c['z'])
        w = 1 / z
        nn, dn = [F(v) for v in c['nn_req']], [F(v) for v in c['dn_req']]
        Nz = sum(v * z ** (len(nn) - 1 - i) for i, v in enumerate(nn))
        Dz = sum(v * z ** (len(dn) - 1 - i) for i, v in enumerate(dn))
        if k == 'asab':
            A = sum(F(v) * w ** i for i, v in enumerate(r['a']))
            B = sum(F(v) * w ** i for i, v in enumerate(r['b']))
        else:
            A = sum((F(r['lhs_y'].get(str(m), 0)) - F(r['rhs_y'].get(str(m), 0))) * w ** m for m in range(12))
            B = sum((F(r['rhs_x'].get(str(m), 0)) - F(r['lhs_x'].get(str(m), 0))) * w ** m for m in range(12))
        return (B * Dz == A * Nz), 'B(1/z)/A(1/z) != H(z)'
    if k == 'de':
        a, b = [F(v) for v in c['a']], [F(v) for v in c['b']]
        for m in range(max(len(a), len(b)) + 2):
            am = F(r['lhs_y'].get(str(m), 0)) - F(r['rhs_y'].get(str(m), 0))
            bm = F(r['rhs_x'].get(str(m), 0)) - F(r['lhs_x'].get(str(m), 0))
            if am != (a[m] if m < len(a) else 0) or bm != (b[m] if m < len(b) else 0):
                return False, 'coefficient of y/x[n-%d]' % m
        return True, ''
    if k in ('impulse', 'izt'):
        b, a = [F(v) for v in c['b']], [F(v) for v in c['a']]
        h = [None if v is None else F(v) for v in r['vals']]
        checked = 0
        for n in range(len(h)):
            vals = [h[n - kk] if n - kk >= 0 else F(0) for kk in range(len(a))]
            if any(v is None for v in vals):
                continue
            checked += 1
            if sum(ak * v for ak, v in zip(a, vals)) != (b[n] if n < len(b) else 0):
                return False, 'A.H != B at coefficient %d' % n
        return (True, '') if checked else (None, '')
    if k == 'step':
        b, a = [F(v) for v in c['b']], [F(v) for v in c['a']]
        g = [None if v is None else F(v) for v in r['vals']]
        checked = 0
        for n in range(len(g)):
            vals = [g[n - kk] if n - kk >= 0 else F(0) for kk in range(len(a))]
            if any(v is None for v in vals):
                continue
            checked += 1
            if sum(ak * v for ak, v in zip(a, vals)) != sum(b[l] for l in range(len(b)) if n - l >= 0):
                return False, 'step response violates the difference equation at n=%d' % n
        return (True, '') if checked else (None, '')
    if k == 'zic':
        b, a, ic, xic = ([F(v) for v in c[key]] for key in ('b', 'a', 'ic', 'xic'))
        w = 1 / F(c['z'])
        L = max(len(a), len(b)) + 2
        if c.get('left', True):
            # simulate the zero-input recursion from the history
            y = {}
            for j, v in enumerate(ic):
                y[-1 - j] = v
            xh = dict((-1 - j, v) for j, v in enumerate(xic))
            for n in range(L):
                acc = sum(bl * xh.get(n - l, F(0)) for l, bl in enumerate(b))
                acc -= sum(a[kk] * y.get(n - kk, F(0)) for kk in range(1, len(a)))
                y[n] = acc / a[0]
            icn = [sum(a[kk] * y[n - kk] for kk in range(min(n, len(a) - 1) + 1)) for n in range(L)]
        else:
            icn = []
            for n in range(len(a) - 1):
                v = sum(a[kk] * ic[n - kk] for kk in range(n + 1) if kk < len(a))
                v -= sum(b[kk] * xic[n - kk] for kk in range(n + 1) if kk < len(b))
                icn.append(v)
        A = sum(v * w ** i for i, v in enumerate(a))
        if A == 0:
            return None, ''
        return (F(r['val']) * A == sum(v * w ** i for i, v in enumerate(icn))), 'Yzi(z) A(1/z) != IC(1/z)'
    if k == 'fromtf':
        w = 1 / F(c['z'])
        A = sum(F(v) * w ** i for i, v in enumerate(r['a']))
        B = sum(F(v) * w ** i for i, v in enumerate(r['b']))
        z = F(c['z'])
        nn, dn = [F(v) for v in c['nn_req']], [F(v) for v in c['dn_req']]
        Nz = sum(v * z ** (len(nn) - 1 - i) for i, v in enumerate(nn))
        Dz = sum(v * z ** (len(dn) - 1 - i) for i, v in enumerate(dn))
        if A == 0 or Dz == 0:
            return None, ''
        return (B * Dz == A * Nz), 'B(1/z)/A(1/z) != H(z)'
    if k == 'lfilter':
        b, a, x = ([F(v) for v in c[key]] for key in ('b', 'a', 'x'))
        y = [F(v) for v in r['vals']]
        if len(y) != len(x):
            return False, 'length'
        for n in range(len(x)):
            lhs = sum(a[kk] * y[n - kk] for kk in range(len(a)) if n - kk >= 0)
            rhs = sum(b[l] * x[n - l] for l in range(len(b)) if n - l >= 0)
            if lhs != rhs:
                return False, 'difference equation fails at position %d' % n
        return True, ''
    if k == 'convolve':
        x, h = [F(v) for v in c['x']], [F(v) for v in c['h']]
        ref = {}
        for i, u in enumerate(x):
            for j, v in enumerate(h):
                ref[c['xn0'] + c['hn0'] + i + j] = ref.get(c['xn0'] + c['hn0'] + i + j, F(0)) + u * v
        obs = dict(zip(r['n'], [F(v) for v in r['vals']]))
        for m in set(ref) | set(obs):
            if ref.get(m, F(0)) != obs.get(m, F(0)):
                return False, 'sample %d: %s, expected %s' % (m, obs.get(m, F(0)), ref.get(m, F(0)))
        return True, ''
    if k == 'seqzt':
        x = [F(v) for v in c['x']]
        z = F(c['z'])
        ref = sum(v * z ** (-(c['n0'] + i)) for i, v in enumerate(x))
        if sum(F(v) for v in r['terms']) != ref:
            return False, 'sum of Sequence.ZT() terms %s != sum x[n] z^-n = %s' % (sum(F(v) for v in r['terms']), ref)
        if F(r['impulses']) != ref:
            return False, 'as_impulses().ZT()'
        if [F(v) for v in r['back']['vals']] != x or r['back']['n'] != list(range(c['n0'], c['n0'] + len(x))):
            return False, 'ZT().IZT() does not recover the sequence'
        return True, ''
    if k == 'zt':
        if 'val' not in r:
            return None, ''
        terms = dec_terms(c['terms'])
        trig = dict((k_, (F(v[0]), F(v[1]))) for k_, v in c['trig'].items())
        z = F(c['z'])
        M = 220
        cols = [term_values(d, trig, M) for d in terms]
        tot = F(0)
        zi = F(1)
        for n in range(M):
            tot += sum(col[n] for col in cols) * zi
            zi /= z
        err = abs(tot - F(r['val']))
        # search only: the truncated tail is below 1e-40 for |z| >= 3 x radius
        return (err <= F(1, 10 ** 25) * max(1, abs(tot))), 'partial sum %s vs closed form %s' % (float(tot), float(F(r['val'])))
    if k == 'dtft':
        if 'val' not in r:
            return None, ''
        cb, sb = F(c['e'][0]), F(c['e'][1])
        if 'x' in c:
            xs = dict((c['n0'] + i, F(v)) for i, v in enumerate(c['x']))
        else:
            terms = dec_terms(c['terms'])
            M = 320
            cols = [term_values(d, {}, M) for d in terms]
            xs = dict((n, sum(col[n] for col in cols)) for n in range(M))
        # sum x[n] e^{-j Omega n} with e^{j Omega} = cb + j sb  (exact Gaussian rationals)
        def cpow(n):
            re_, im_ = F(1), F(0)
            br, bi = (cb, -sb) if n >= 0 else (cb, sb)
            for _ in range(abs(n)):
                re_, im_ = re_ * br - im_ * bi, re_ * bi + im_ * br
            return re_, im_
        tr_, ti_ = F(0), F(0)
        if 'x' in c:
            for n, v in xs.items():
                pr, pi_ = cpow(n)
                tr_ += v * pr
                ti_ += v * pi_
            ok = (tr_ == F(r['val'][0]) and ti_ == F(r['val'][1]))
            return ok, 'DTFT %s, defining sum (%s, %s)' % (r['val'], tr_, ti_)
        pr, pi_ = F(1), F(0)
        for n in range(len(xs)):
            tr_ += xs[n] * pr
            ti_ += xs[n] * pi_
            pr, pi_ = pr * cb + pi_ * sb, pi_ * cb - pr * sb
        err = abs(tr_ - F(r['val'][0])) + abs(ti_ - F(r['val'][1]))
        return (err <= F(1, 10 ** 25)), 'partial sum (%s, %s) vs closed form %s' % (float(tr_), float(ti_), r['val'])
    if k == 'ztrt':
        if 'vals' not in r:
            return None, ''
        terms = dec_terms(c['terms'])
        xv = [sum(col) for col in zip(*[term_values(d, {}, c['N']) for d in terms])]
        ok = None
        for n, v in enumerate(r['vals']):
            if v is None:
                continue
            if F(v) != xv[n]:
                return False, 'x(z)(n) at n=%d is %s, x[n] = %s' % (n, v, xv[n])
            ok = True
        return ok, ''
    if k == 'seqdft':
        N = len(c['x'])
        C = get_cy(c['M'])
        xs = [C.const(F(v)) for v in c['x']]
        step = C.M // N
        ok = None
        for kk in range(N):
            if r['vals'][kk] is None:
                continue
            tot = C.const(0)
            for i, xv in enumerate(xs):
                tot = tot + C.mul(xv, C.zeta(-(c['n0'] + i) * kk * step))
            if C.coeffs(tot.rem(C.Phi)) != r['vals'][kk]:
                return False, 'X[%d] != defining sum' % kk
            ok = True
        # inverse recovers the N-periodic extension on 0..N-1
        for n in range(N):
            if r['back'][n] is None:
                continue
            src = (n - c['n0']) % N
            if r['back'][n] != C.coeffs(xs[src]):
                return False, 'IDFT(DFT(x))[%d]' % n
        if r['kn'] != list(range(N)) or r['bn'] != list(range(N)):
            return False, 'index lists'
        return ok, ''
    if k in ('exprdft', 'expridft'):
        if 'vals' not in r:
            return None, ''
        ok = None
        for N in c['Ns']:
            C = get_cy(c['Ms'][str(N)])
            xs = [sig_value(C, c['sig'], i, N, c['inverse']) for i in range(N)]
            for kk in range(N):
                obs = r['vals'][str(N)][kk]
                if obs is None:
                    continue
                if obs == 'singular':
                    return False, 'N=%d index %d: the returned closed form is undefined (zoo/nan) at this index' % (N, kk)
                ref = C.coeffs(dft_sum(C, xs, N, kk, c['inverse']))
                if obs != ref:
                    return False, 'N=%d index %d: %s, defining sum %s' % (N, kk, obs, ref)
                ok = True
        return ok, ''
    return None, ''


# ------------------------------------------------------------------ diagnosis of known defect classes
def py_lfilter(b, a, x, wrap, plus):
    y = []
    for n in range(len(x)):
        acc = F(0)
        for m, b1 in enumerate(b):
            j = n - m
            if j >= 0:
                acc += b1 * x[j] / a[0]
            elif wrap and -j <= len(x):
                acc += b1 * x[j] / a[0]
        for m, a1 in enumerate(a[1:]):
            j = n - 1 - m
            if j >= 0:
                acc += (a1 if plus else -a1) * y[j] / a[0]
        y.append(acc)
    return y


def extent(l):
    nzs = [i for i, v in enumerate(l) if v != 0]
    return (nzs[-1] - nzs[0] + 1) if nzs else 0


def py_response(b, a, x, xn0, ic, n0, n1):
    """direct evaluation of the recursion (independent of the Coq model)"""
    Ni = len(ic)
    y = dict((-1 - j, v) for j, v in enumerate(ic))
    for n in range(0, n1 + 1):
        acc = sum(bl * (x[n - l - xn0] if 0 <= n - l - xn0 < len(x) else F(0)) for l, bl in enumerate(b))
        acc -= sum(a[kk] * y.get(n - kk, F(0)) for kk in range(1, len(a)))
        y[n] = acc / a[0]
    return [y.get(n, F(0)) for n in range(n0, n1 + 1)]


def fingerprint(c, r):
    """structural fingerprints of a failing case; one key per distinct defect mechanism"""
    k = c['kind']
    if k == 'keyhist':
        names = sorted(set(n_ for _e, kw in c['calls'] for n_ in kw))
        return ['%s.cache:history-dependent:%s' % (c['cls'], '+'.join(names) or 'no-kwargs')]
    if k == 'response':
        b, a, ic, x = ([F(v) for v in c[key]] for key in ('b', 'a', 'ic', 'x'))
        if c['xkind'] == 'seq' and c['xn0'] != 0 and \
                py_response(b, a, x, 0, ic, c['ni'][0], c['ni'][1]) == [F(v) for v in r['vals']]:
            return ['DLTIFilter.response:sequence-origin-ignored']
        return ['DLTIFilter.response:other']
    if k == 'zpk':
        z = F(c['z'])
        den = math.prod([z - F(v) for v in c['P']])
        if len(c['Z']) != len(c['P']) and den != 0 and \
                F(r['val']) == F(c['K']) * math.prod([z - F(v) for v in c['Z']]) / den * z ** (len(c['P']) - len(c['Z'])):
            return ['DLTIFilter.from_ZPK:unequal-zero-pole-count']
        return ['DLTIFilter.from_ZPK:other']
    if k == 'freqresp':
        ok_, det = oracle(dict(c, b=[fs(F(v) * len(c['b'])) for v in c['b']]), r)
        if r.get('ma') and ok_:
            return ['DLTIFilter.frequency_response:moving-average-gain']
        return ['DLTIFilter.frequency_response:other']
    if k == 'lfilter':
        b, a, x = ([F(v) for v in c[key]] for key in ('b', 'a', 'x'))
        obs = [F(v) for v in r['vals']]
        for wrap in (False, True):
            for plus in (False, True):
                if (wrap or plus) and py_lfilter(b, a, x, wrap, plus) == obs:
                    keys = []
                    if wrap and py_lfilter(b, a, x, False, plus) != obs:
                        keys.append('Sequence.lfilter:negative-index-wraparound')
                    if plus and py_lfilter(b, a, x, wrap, False) != obs:
                        keys.append('Sequence.lfilter:feedback-sign')
                    if keys:
                        return keys
        return ['Sequence.lfilter:other']
    if k == 'convolve':
        x, h = [F(v) for v in c['x']], [F(v) for v in c['h']]
        if h[0] == 0:
            xp = x + [F(0)] * (extent(x) + extent(h) - 1 - extent(x))
            if py_lfilter(h, [F(1)], xp, True, True) == [F(v) for v in r['vals']]:
                return ['Sequence.convolve:h-leading-zeros']
        return ['Sequence.convolve:other']
    if k == 'seqzt':
        x = [F(v) for v in c['x']]
        z = F(c['z'])
        if c['n0'] != 0 and [F(v) for v in r['terms']] == [v * z ** (-i) for i, v in enumerate(x)]:
            return ['DiscreteTimeDomainSequence.ZT:origin-ignored']
        return ['DiscreteTimeDomainSequence.ZT:other']
    if k == 'zic':
        b, a, ic, xic = ([F(v) for v in c[key]] for key in ('b', 'a', 'ic', 'xic'))
        if len(b) > len(a) and c.get('left', True):
            # the source's loop stops at k = len(a) - 1
            w = 1 / F(c['z'])
            num = F(0)
            for kk in range(1, len(a)):
                for i in range(kk):
                    num -= a[kk] * ic[i] * w ** (kk - i - 1)
                    num += b[kk] * xic[i] * w ** (kk - i - 1)
            A = sum(v * w ** i for i, v in enumerate(a))
            if A != 0 and num / A == F(r['val']):
                return ['DLTIFilter.zdomain_initial_response:len(b)>len(a)']
        return ['DLTIFilter.zdomain_initial_response:other']
    if k == 'zt':
        return ['ZTransformer.term:' + '+'.join(sorted(set(term_class(d) for d in dec_terms(c['terms']))))]
    if k == 'dtft':
        return ['DTFT:' + ('sequence' if 'x' in c else '+'.join(sorted(set(term_class(d) for d in dec_terms(c['terms'])))))]
    if k == 'ztrt':
        return ['ZT+IZT round trip:' + '+'.join(sorted(set(term_class(d) for d in dec_terms(c['terms']))))]
    if k in ('exprdft', 'expridft'):
        sing = singular_mirror(c, r)
        if sing:
            return [sing]
        return ['DFTTransformer.term:' + '+'.join(sorted(set(t[0] for t in c['sig']))) + (':inverse' if c['inverse'] else '')]
    return ['%s' % {'response': 'DLTIFilter.response', 'tf': 'DLTIFilter.transfer_function', 'de': 'DLTIFilter.difference_equation',
                    'impulse': 'DLTIFilter.impulse_response', 'fromtf': 'DLTIFilter.from_transfer_function',
                    'invtf': 'DLTIFilter.inverse', 'detf': 'DifferenceEquation.transfer_function', 'zde': 'ZDomainExpression.difference_equation', 'asab': 'ZDomainExpression.as_ab', 'izt': 'InverseZTransformer.ratfun', 'step': 'DLTIFilter.step_response', 'seqdft': 'DiscreteTimeDomainSequence.DFT'}.get(k, k)]


def singular_mirror(c, r):
    """symbolic N, one polynomial-weighted on-bin sinusoid n^p cos/sin(2 pi m n/N + phi): the only undefined samples
    are the mirror bins k = N - m, everything else equals the defining sum"""
    if 'N' in c or c['inverse'] or len(c['sig']) != 1 or c['sig'][0][0] not in ('ncos', 'nsin') or 'vals' not in r:
        return None
    m = c['sig'][0][2]
    hit = False
    for N in c['Ns']:
        for kk, v in enumerate(r['vals'][str(N)]):
            if v == 'singular':
                if kk != N - m:
                    return None
                hit = True
    if not hit:
        return None
    r2 = dict(r, vals=dict((N_, [None if v == 'singular' else v for v in vs]) for N_, vs in r['vals'].items()))
    ok_, _ = oracle(c, r2)
    return 'QkTransform.make_transform:symbolic-N-mirror-bin' if ok_ else None


def term_class(d):
    s = d['base'][0]
    if d['p']:
        s += '*n'
    if d['geos']:
        s += '*a^n'
    if d['steps']:
        s += '*u'
    return s


NEEDED = ('FieldSec', 'SeqFilter', 'SeqDFT', 'SeqQcI', 'SeqZ', 'SeqZAnalysis', 'SeqCache')


def theory_ready():
    """the compiled theory files this check loads are present and newer than
    their sources (then the shared rebuild of coq/theory, which also compiles
    the other properties' files under a global lock, is not needed)"""
    for f in NEEDED:
        v = os.path.join(core.COQ_THEORY, f + '.v')
        vo = v + 'o'
        if not os.path.exists(vo) or os.path.getmtime(vo) < os.path.getmtime(v):
            return False
    return True


# ------------------------------------------------------------------ main
def run(tier='quick', replay=None):
    warnings.filterwarnings('ignore')
    res = core.Result(PID, tier)
    rng = random.Random(core.seed() * 104729 + 13)
    if not theory_ready():
        core.ensure_theory()
    w = core.Work(PID)
    violations = []
    try:
        trp = os.path.join(core.VERIF, 'tools', 'tr_ztable.py')
        res.trusted = [
            'Coq 8.16.1 kernel + vm_compute (no native_compute)',
            'translator tools/tr_ztable.py (sha256 %s) + statement templates in checks/c13.py' % core.sha256_file(trp)[:16],
            'translator tools/tr_dtkeys.py (sha256 %s): key / read-set extraction of the transformer classes' % core.sha256_file(os.path.join(core.VERIF, 'tools', 'tr_dtkeys.py'))[:16],
            'canonicalisation tools/impl_dt.py (sha256 %s): exact rationals, Q(zeta_M) arithmetic via sympy Poly' % core.sha256_file(os.path.join(core.VERIF, 'tools', 'impl_dt.py'))[:16],
            'specifications: formal power series in 1/z (coq/theory/SeqFilter.v, SeqZ.v), DFT over a field with a primitive root (SeqDFT.v)',
            'modelled, not verified: sympy simplify/expand/cancel inside Lcapy as identity on rational functions; sympy roots/partial fractions of '
            'InverseZTransformer.ratfun (validated per case against the power-series coefficients computed by the proved recursion)',
        ]
        res.assumptions = ['field of characteristic 0 with decidable equality', 'a[0] <> 0 and len(ic) = len(a) - 1 (checked by the code)',
                           'DFT: W^N = 1 and W^k <> 1 for 0 < k < N (primitive N-th root; instances exhibited for N = 2, 4)',
                           'sinusoid descriptors: cos(b)^2 + sin(b)^2 = 1',
                           'analytic statements (props/C13_analysis.v): real z inside the region of convergence; classical real axioms of the Coq standard library']
        res.extra['partial'] = [
            'dft.py: only the impulse / constant / geometric / complex-exponential closed forms carry per-case lemmas (SeqDFT.v) and translated '
            'formulas (gen_dft_*); the remaining case table is covered by correspondence (N in {1,2,4} inside Coq) and the exact Q(zeta_M) oracle',
            'DTFT: finite and absolutely summable causal signals only (value on the unit circle = model at z = e^{j Omega}); Dirac-comb entries not modelled',
            'zt_analytic / geometric_entry are for real z; complex z is covered by the formal-power-series identity plus exact evaluation only',
            'sympy roots / residues inside InverseZTransformer.ratfun are not modelled: the result is compared with the power-series coefficients '
            'computed by the proved recursion (impulse_response_coeffs, zt_unique, zt_binom)',
        ]
        res.extra['observations_outside_premise'] = [
            'advanced impulses/steps are transformed bilaterally: delta(n+2).ZT() = z**2, u(n+2).ZT() = z**2/(1-1/z) (pinned by lcapy/tests/test_ztransform.py)',
            'the unevaluated fallback of ZTransformer.term builds Sum(x[m] * z**m) instead of z**(-m) (not a closed form)',
            'nexpr("...N...").DFT() in a fresh process creates two different symbols N unless N = symbol("N", integer=True, positive=True) was registered first (Lcapy warns)',
            'InverseZTransformer.term1 calls self.ratfun(expr, z, n) without **kwargs, so pairs=False and damping=... are silently ignored by '
            'IZT (the key still distinguishes them; results are valid inverse transforms, only the requested form is not honoured); passing them on would '
            'make Ratfun(expr, z, **kwargs) raise since Ratfun.__init__ accepts no keyword (inverse_laplace.py passes **kwargs to its ratfun)',
        ]
        texts = {}
        files = []
        # 1. translate
        zt = dt = it = None
        try:
            with warnings.catch_warnings():
                warnings.simplefilter('ignore')
                zt = T.ZTable(core.REPO)
                dt = T.DFTTable(core.REPO)
                it = T.IZTable(core.REPO)
        except T.Untranslatable as e:
            res.failed_obl.append(('translate', 'lcapy/ztransform.py|dft.py|inverse_ztransform.py', str(e)))
            res.obligations += 1
        if zt is not None and dt is not None and it is not None:
            texts['ZTableGen.v'] = zt.coq()
            texts['DFTTableGen.v'] = dt.coq()
            texts['IZTableGen.v'] = it.coq()
            for f in ('ZTableGen.v', 'DFTTableGen.v', 'IZTableGen.v'):
                w.write(f, texts[f])
            r0 = core.coqc_many(w.dir, ['ZTableGen.v', 'DFTTableGen.v', 'IZTableGen.v'], timeout=300)
            gen_ok = all(v[0] for v in r0.values())
            if not gen_ok:
                for f, (ok, out, secs) in r0.items():
                    if not ok:
                        res.failed_obl.append(('generated_definitions', f, out[-800:]))
                        res.obligations += 1
            else:
                ttxt, tnames = gen_tables(zt, dt, it)
                texts['C13_tables.v'] = ttxt
                w.write('C13_tables.v', ttxt)
                files.append('C13_tables.v')
        # 1b. cache keys of the six transformer classes (tools/tr_dtkeys.py)
        try:
            with warnings.catch_warnings():
                warnings.simplefilter('ignore')
                keys = TK.Keys(core.REPO)
            for cls_, _f in TK.CLASSES:
                fn_ = 'DTKey_%s.v' % cls_
                texts[fn_] = keys.coq(cls_)
                w.write(fn_, texts[fn_])
                files.append(fn_)
            res.extra['cache_keys'] = dict((cls_, {'key': [list(c_) for c_ in keys.out[cls_]['key']],
                                                    'reads': keys.out[cls_]['where'], 'notes': keys.out[cls_]['notes']}) for cls_, _f in TK.CLASSES)
        except TK.Untranslatable as e:
            res.failed_obl.append(('translate_keys', 'lcapy/transformer.py + the six transformer classes', str(e)))
            res.obligations += 1
        # 2. prove
        for pf in ('C13.v', 'C13_analysis.v', 'C13_cache.v'):
            ptxt = open(os.path.join(core.VERIF, 'coq', 'props', pf)).read()
            texts[pf] = ptxt
            w.write(pf, ptxt)
            files.append(pf)
        bad = core.gate_text('generated+props', '\n'.join(texts.values()))
        bad += core.gate_files([os.path.join(core.COQ_THEORY, f) for f in os.listdir(core.COQ_THEORY) if f.startswith('Seq') and f.endswith('.v')])
        if bad:
            res.failed_obl.append(('gate', 'generated', '; '.join(bad)))
            res.obligations += 1
        import threading
        prove_out = {}

        def prove():
            prove_out.update(core.coqc_many(w.dir, files, timeout=900))
        th = threading.Thread(target=prove)
        th.start()

        # 3. correspondence on the real code
        if replay:
            cases = [replay['case']]
        else:
            cases = gen_cases(rng, tier) + gen_keyhist(rng, tier)
        import time as _t
        _t0 = _t.time()
        results = core.run_impl('impl_dt.py', cases, hashseeds=[0])
        # a worker whose output could not be read loses its whole chunk: run those cases again (smaller chunks)
        lost = [i for i, r in enumerate(results) if 'error' in r and r['error'].startswith('worker crashed')]
        if lost:
            again = core.run_impl('impl_dt.py', [cases[i] for i in lost], hashseeds=[0])
            for i, r in zip(lost, again):
                results[i] = r
            res.notes.append('%d cases re-run after a worker crash' % len(lost))
        _t1 = _t.time()
        th.join()
        _t2 = _t.time()
        res.coq_results(w.dir, prove_out, dict((f, texts[f]) for f in files))
        res.extra['coq_seconds'] = dict((f, round(v[2], 1)) for f, v in prove_out.items())

        items = []
        structs = {}
        errs = {}
        res.programs = len(set(c['kind'] for c in cases))
        for i, (c, r) in enumerate(zip(cases, results)):
            res.count('kind_' + c['kind'])
            if 'error' in r:
                res.count('impl_error_' + c['kind'])
                errs.setdefault(c['kind'], []).append((c, r))
                res.notes.append('impl error %s: %s' % (c['kind'], r['error'][:160])) if len(res.notes) < 12 else None
                continue
            if 'unevaluated' in r:
                res.count('unevaluated_' + c['kind'])
                continue
            if 'timeout' in r:
                res.count('cpu_limit_' + c['kind'])
                continue
            if 'inexact' in r:
                res.count('inexact_' + c['kind'])
                continue
            extra = {}
            try:
                term = coq_case(c, r, extra)
            except Exception as e:       # malformed observation: treat as disagreement
                term = None
                extra['struct'] = 'cannot encode observation: %s' % e
            if 'struct' in extra:
                structs[i] = extra['struct']
            if term is not None:
                items.append((i, term))
            res.add_case(json.dumps(c, sort_keys=True), True, {'case': c, 'lcapy': r} if i % 53 == 0 else None)
            ok, detail = oracle(c, r)
            if ok is None:
                res.count('oracle_not_applicable')
            elif ok:
                res.count('oracle_ok')
            else:
                res.count('oracle_fail')
                res.counterexamples.append({'case': c, 'lcapy': r, 'detail': detail})
        # in-Coq evaluation
        corr_fail = []
        shards = [items[j:j + 40] for j in range(0, len(items), 40)]
        fn = []
        for si, sh in enumerate(shards):
            body = CASES_HEADER + 'Definition cases : list (nat * bool) := [\n' + ';\n'.join('(%d%%nat, %s)' % (i, t) for i, t in sh) + \
                '].\nDefinition failing := map fst (filter (fun p => negb (snd p)) cases).\nEval vm_compute in failing.\n'
            w.write('cases_%d.v' % si, body)
            fn.append('cases_%d.v' % si)
        cr = core.coqc_many(w.dir, fn, timeout=900)
        for f, (ok, out, secs) in cr.items():
            fl = core.parse_eval_list(out) if ok else None
            if fl is None:
                res.failed_obl.append(('correspondence_eval', f, out[-800:]))
                res.obligations += 1
            else:
                corr_fail += fl
        res.extra['traces_validated_against_impl'] = len(items)
        res.extra['phase_seconds'] = {'impl_workers': round(_t1 - _t0, 1), 'wait_for_proofs': round(_t2 - _t1, 1), 'oracle_and_cases_eval': round(_t.time() - _t2, 1)}
        for i in sorted(set(corr_fail) | set(structs)):
            res.disagreements.append({'case': cases[i], 'lcapy': results[i], 'struct': structs.get(i)})
        res.rule = ('cases: generated from VERIF_SEED — filters with random rational b, a, inputs (list / Sequence with origin / impulse expression), '
                    'initial conditions and index ranges; transfer functions with simple, repeated and complex-pair poles; z-transform '
                    'descriptors (coefficient x n^p x geometric factors x delayed steps x {1, delayed impulse, sin/cos with phase on rational '
                    'points of the unit circle}) and sums of them; literal sequences with origins; DFT signals (impulse, constant, geometric, '
                    'complex exponential, cosine, ramp, n a^n, window) with numeric and symbolic N instantiated at several N, every k. '
                    'non-trivial = the real code returned a closed form that could be canonicalised exactly; distinct = distinct case JSON')

        # 4. decide
        seen = {}

        def zt_classes(case):
            return [term_class(d) for d in dec_terms(case['terms'])]

        def dft_classes(case):
            return [t[0] + (':inverse' if case['inverse'] else '') for t in case['sig']]

        def subsumed(cls, minimal, same_base=True):
            parts = cls.split('*')
            for m in minimal:
                mp = m.split('*')
                if same_base and mp[0] == parts[0] and set(mp[1:]) <= set(parts[1:]):
                    return True
                if not same_base and set(mp[1:]) < set(parts[1:]):
                    return True
            return False
        # failures of sums are attributed to the smallest failing single-term classes
        def minimal_classes(kind):
            fails = [ce for ce in res.counterexamples if ce['case']['kind'] == kind and 'terms' in ce['case']]
            single = sorted(set(zt_classes(ce['case'])[0] for ce in fails if len(ce['case']['terms']) == 1), key=lambda c_: c_.count('*'))
            mins = []
            for cls in single:
                if not subsumed(cls, mins):
                    mins.append(cls)
            return [m for m in mins if not subsumed(m, [o for o in mins if o != m], same_base=False)]
        MIN = {'zt': minimal_classes('zt'), 'dtft': minimal_classes('dtft'), 'ztrt': minimal_classes('ztrt')}
        PREFIX = {'zt': 'ZTransformer.term:', 'dtft': 'DTFT:', 'ztrt': 'ZT+IZT round trip:'}
        dft_fail = [ce for ce in res.counterexamples if ce['case']['kind'] in ('exprdft', 'expridft')]
        dft_min = sorted(set(dft_classes(ce['case'])[0] for ce in dft_fail if len(ce['case']['sig']) == 1))

        def keys_of(ce):
            c = ce['case']
            if c['kind'] in MIN and 'terms' in c:
                cl = zt_classes(c)
                minimal = MIN[c['kind']]
                if len(cl) == 1 and cl[0] in minimal:
                    return [PREFIX[c['kind']] + cl[0]]
                if any(subsumed(x, minimal) or subsumed(x, minimal, same_base=False) for x in cl):
                    return ['@explained']
            if c['kind'] in ('exprdft', 'expridft'):
                cl = dft_classes(c)
                sing = singular_mirror(c, ce['lcapy'])
                if sing:
                    return [sing]
                if len(cl) == 1:
                    return ['DFTTransformer.term:' + cl[0]]
                if any(x in dft_min for x in cl):
                    return ['@explained']
            return fingerprint(c, ce['lcapy'])
        order = sorted(res.counterexamples, key=lambda ce: len(json.dumps(ce['case'])))
        for ce in order:
            for key in keys_of(ce):
                if key == '@explained' or key in seen:
                    continue
                seen[key] = ce
                violations.append({'key': key, 'what': 'real code violates the defining relation (%s): %s' % (key, ce['detail']),
                                   'case': ce['case'], 'lcapy': ce['lcapy'], 'found_input': True,
                                   'how': './check C13 --replay <this file>'})
        failed_kinds = set(ce['case']['kind'] for ce in res.counterexamples)
        for dsg in res.disagreements:
            keys = keys_of(dsg)
            if all(k_ in seen or k_ == '@explained' for k_ in keys):
                continue
            for key in keys:
                if key in seen or key == '@explained':
                    continue
                seen[key] = dsg
                violations.append({'key': 'correspondence:' + key, 'what': 'model and real code differ (%s)%s' % (key, ': ' + dsg['struct'] if dsg.get('struct') else ''),
                                   'case': dsg['case'], 'lcapy': dsg['lcapy'], 'found_input': False,
                                   'correspondence': 'LT.Seq* model vs %s' % key})
        for name, f, msg in res.failed_obl:
            # a broken table obligation / translation is explained by a concrete failing input of the same mechanism
            related = set()
            if name.startswith('gen_zt') or (name == 'translate' and 'ZTransformer' in msg + f) or 'ztransform' in msg:
                related = {'zt'}
            if name.startswith('gen_dft') or 'termXq' in msg or 'dft.py' in msg or 'branch' in msg:
                related |= {'exprdft', 'expridft'}
            if name.startswith('gen_izt') or 'ratfun' in msg or 'pole' in msg:
                related |= {'izt', 'impulse', 'step', 'ztrt'}
            if name.startswith('gen_key_determines_view') or name.startswith('gen_cache_transparent') or name == 'translate_keys':
                related = {'keyhist'}
            if name in ('translate', 'generated_definitions') and not related:
                related = {'zt', 'exprdft', 'expridft', 'izt', 'impulse', 'step', 'ztrt'}
            if related & failed_kinds:
                res.notes.append('obligation %s broken; explained by the failing input(s) found for %s' % (name, sorted(related & failed_kinds)))
                continue
            violations.append({'key': 'obligation:' + name, 'what': 'Coq obligation %s in %s no longer checks' % (name, f),
                               'theorem': name, 'file': f, 'message': msg[-600:], 'found_input': False})
        # the real code must return something: a kind that mostly raises is not "property held"
        nk = {}
        for c in cases:
            nk[c['kind']] = nk.get(c['kind'], 0) + 1
        crashed = [(c, r) for lst in errs.values() for c, r in lst if r['error'].startswith('worker crashed')]
        if crashed:
            violations.append({'key': 'harness:worker-crashed', 'what': 'tools/impl_dt.py died twice on %d cases (no result from the real code)' % len(crashed),
                               'case': crashed[0][0], 'lcapy': crashed[0][1], 'found_input': False})
        for kind_, lst in errs.items():
            if not replay and len(lst) >= max(3, nk[kind_] // 4):
                violations.append({'key': 'exceptions:' + kind_, 'what': 'the real code raised on %d of %d generated %s cases: %s' % (
                    len(lst), nk[kind_], kind_, lst[0][1]['error'][:200]), 'case': lst[0][0], 'lcapy': lst[0][1], 'found_input': False})
        if replay:
            print(json.dumps({'case': cases[0], 'lcapy': results[0], 'oracle': oracle(cases[0], results[0]) if 'error' not in results[0] else None,
                              'model_disagrees': bool(res.disagreements)}, indent=1, default=str)[:3000])
        return core.finish(res, violations)
    finally:
        if not os.environ.get('VERIF_KEEP'):
            w.cleanup()


if __name__ == '__main__':
    sys.exit(run(sys.argv[1] if len(sys.argv) > 1 else 'quick'))
