"""C17 — numerical evaluation of an expression equals its symbolic value  (partial)

  translate  lcapy/expr.py (nested numeric definitions of Expr.evaluate, lambdify table, causal
             short-circuit, scalar/list structure), lcapy/config.py, lcapy/extrafunctions.py
             (eval / rewrite bodies), lcapy/acdc.py (CausalChecker argument test)
                                       -> Gen/NumFuncsGen.v   (tools/tr_numfuncs.py)
             lcapy/simulator.py, lcapy/mnacpts.py (_r_model), lcapy/sexpr.py (bilinear substitution)
                                       -> Gen/NumSimGen.v     (tools/tr_numsim.py)
  prove      Gen/C17_f_<key>.v, C17_rw_<cls>.v  num_eq_sym_<f>, rw_eq_eval_<f> (fixed templates below)
             props/C17.v      causal masking, no extrapolation, list = map (about the generated guard/program)
             props/C17sim.v   one-step facts of the companion models and of the bilinear substitution
             Gen/C17_expr.v   evaluate_agrees_with_subs: for ALL expressions over the proved functions
  correspond real evaluate() and exact sympy substitution vs the two instantiations of the model,
             evaluated by vm_compute inside Coq at dyadic rational points (exact verdicts only)
  search     independent oracles: exact comparison evaluate vs substitution away from discontinuities
             (python Fractions); float comparison vs sympy.N(...,50) for the transcendental class;
             step-halving convergence of Simulator / response() against closed forms
Partial: NumPy floating point, lambdify's printer, convergence as h -> 0 for arbitrary circuits are
outside the model (named in the evidence).
"""
import hashlib
import json
import math
import os
import random
import re
import sys
from fractions import Fraction

sys.path.insert(0, os.path.dirname(os.path.dirname(os.path.abspath(__file__))))
from vlib import core
sys.path.insert(0, os.path.join(core.VERIF, 'tools'))
import tr_numfuncs as TF
import tr_numsim as TS

PID = 'C17'
MANIFEST = {
    'text': 'Coq theorems, regenerated from the source on every run: for each of the numeric definitions nested in '
            'Expr.evaluate (rect, sign, dtsign, dtrect, trap, tri, ramp, rampstep, dirac, unitimpulse, unitstep, heaviside '
            'over Q; sinc, sincn, sincu, psinc over an abstract field with abstract sin/pi) num_eq_sym_<f>: away from the '
            'discontinuities of f the numeric definition equals the symbolic eval body (and the rewrite body equals the eval '
            'body); by induction over all expressions built from rational operations, these functions and Piecewise '
            'conditions, numeric evaluation equals exact substitution wherever no argument is a discontinuity; the causal '
            'short-circuit zeroes exactly the negative arguments of causal expressions; a result conditioned on t >= c '
            'raises below c; list evaluation is the element-wise map of scalar evaluation; the trapezoidal / backward-Euler '
            'companion models are exact on affine / constant drives with explicit O(h^3) / O(h^2) one-step defects.  The '
            'models are tied to the code by in-Coq evaluation (vm_compute over Qc) against the real evaluate() and exact '
            'sympy substitution at dyadic rational points.',
    'note': 'PARTIAL: NumPy floating point, the lambdify printer, the limit()/simplify() fall-backs of evaluate, Bessel functions, '
            'the overflow clamp of exp and convergence of Simulator/response as h -> 0 for arbitrary circuits are outside the '
            'model; they are exercised only by the float search oracle (tolerance 1e-9, reported only above 1e-6).  Trusted: Coq '
            'kernel/vm_compute; tools/tr_numfuncs.py, tools/tr_numsim.py; statement templates in checks/c17.py; hand-written '
            'specification of SymPy Heaviside/sign/DiracDelta/sinc in coq/theory/NumEval.v (validated by the exact-substitution '
            'side of the correspondence); float -> rational canonicalisation limit_denominator(10^6) for dyadic inputs.',
    'technique': 'Coq proof (case analysis + lra / field) over definitions translated from source + in-Coq correspondence '
                 'evaluation + exact and float search oracles',
}

F = Fraction
HALF = F(1, 2)
# break points (where a definition changes branch) and discontinuities (excluded by the property)
BREAKS = {'Heaviside': [F(0)], 'DiracDelta': [F(0)], 'sign': [F(0)], 'rect': [-HALF, HALF], 'tri': [F(-1), F(0), F(1)],
          'ramp': [F(0)], 'rampstep': [F(0), F(1)], 'UnitStep': [F(0)], 'UnitImpulse': [F(0)], 'dtrect': [-HALF, HALF],
          'dtsign': [F(0)], 'trap': [-HALF, HALF], 'heav2': [F(0)], 'step2': [F(0)]}
DISC = {'Heaviside': [F(0)], 'DiracDelta': [F(0)], 'sign': [F(0)], 'rect': [-HALF, HALF], 'heav2': [F(0)]}
FN1 = dict((k, c) for c, k in TF.FN1)          # key -> Coq constructor
CT_FUNS = ['Heaviside', 'DiracDelta', 'sign', 'rect', 'tri', 'ramp', 'rampstep']
DT_FUNS = ['UnitStep', 'UnitImpulse', 'dtrect', 'dtsign']
DOMAINS = ['t', 'f', 'omega', 's', 'n', 'k', 'z']


def fstr(x):
    x = F(x)
    return '%d/%d' % (x.numerator, x.denominator)


# ---------------------------------------------------------------------------
# independent exact evaluator (mathematical definitions; used for the
# discontinuity flags and for the attribution of a failure to a function)
class Singular(Exception):
    pass


def math_fn(name, u):
    if name == 'Heaviside':
        return F(0) if u < 0 else (HALF if u == 0 else F(1))
    if name == 'DiracDelta':
        if u == 0:
            raise Singular('delta')
        return F(0)
    if name == 'sign':
        return F(-1) if u < 0 else (F(0) if u == 0 else F(1))
    if name == 'rect':
        return F(1) if abs(u) < HALF else (HALF if abs(u) == HALF else F(0))
    if name == 'tri':
        return max(F(0), 1 - abs(u))
    if name == 'ramp':
        return max(F(0), u)
    if name == 'rampstep':
        return min(max(u, F(0)), F(1))
    if name == 'UnitStep':
        return F(1) if u >= 0 else F(0)
    if name == 'UnitImpulse':
        return F(1) if u == 0 else F(0)
    if name == 'dtrect':
        return F(1) if -HALF <= u < HALF else F(0)
    if name == 'dtsign':
        return F(1) if u >= 0 else F(-1)
    raise ValueError(name)


def math_trap(u, a):
    f = abs(u) - HALF
    if a == 0:
        return F(1) if abs(u) <= HALF else F(0)
    if f >= a / 2:
        return F(0)
    if f <= -a / 2:
        return F(1)
    return HALF - f / a


def pyeval(tr, x, apps):
    """value (Fraction) or None (no Piecewise clause); apps collects (function, argument, at_discontinuity)"""
    k = tr[0]
    if k == 'var':
        return x
    if k == 'c':
        return F(tr[1])
    if k in ('add', 'sub', 'mul', 'div'):
        a, b = pyeval(tr[1], x, apps), pyeval(tr[2], x, apps)
        if a is None or b is None:
            return None
        if k == 'div':
            if b == 0:
                raise Singular('div0')
            return a / b
        return a + b if k == 'add' else (a - b if k == 'sub' else a * b)
    if k in ('neg', 'abs'):
        a = pyeval(tr[1], x, apps)
        return None if a is None else (-a if k == 'neg' else abs(a))
    if k == 'f':
        u = pyeval(tr[2], x, apps)
        if u is None:
            return None
        apps.append((tr[1], u, u in DISC.get(tr[1], [])))
        return math_fn(tr[1], u)
    if k == 'trap':
        u = pyeval(tr[1], x, apps)
        if u is None:
            return None
        a = F(tr[2])
        apps.append(('trap', u, a == 0 and abs(u) == HALF))
        return math_trap(u, a)
    if k == 'heav2':
        u = pyeval(tr[1], x, apps)
        if u is None:
            return None
        apps.append(('heav2', u, u == 0))
        return F(0) if u < 0 else (F(tr[2]) if u == 0 else F(1))
    if k == 'step2':
        u = pyeval(tr[1], x, apps)
        if u is None:
            return None
        apps.append(('step2', u, False))
        return F(0) if u < 0 else (F(tr[2]) if u == 0 else F(1))
    if k == 'pw':
        a, b = pyeval(tr[2], x, apps), pyeval(tr[3], x, apps)
        if a is None or b is None:
            return None
        c = {'lt': a < b, 'le': a <= b, 'gt': a > b, 'ge': a >= b}[tr[1]]
        return pyeval(tr[4], x, apps) if c else pyeval(tr[5], x, apps)
    if k == 'undef':
        return None
    raise ValueError(k)


def cls_of(fname, u):
    """class of an argument value, used in finding keys"""
    if u in BREAKS.get(fname, []):
        return 'x=%s' % (u if u.denominator != 1 else u.numerator)
    return 'x<0' if u < 0 else 'x>0'


# ---------------------------------------------------------------------------
# generators (exact piecewise class)
def affine(rng, simple=False):
    a = rng.choice([F(1), F(1), F(1), F(2), F(-1), HALF, F(4)])
    b = rng.choice([F(0), F(0), F(1), F(-1), HALF, -HALF, F(2), F(-3, 2), F(1, 4)])
    if simple:
        a, b = F(1), rng.choice([F(0), F(0), F(-1), HALF])
    return a, b


def aff_tree(a, b):
    t = ['var'] if a == 1 else ['mul', ['c', fstr(a)], ['var']]
    if b == 0:
        return t
    return ['add', t, ['c', fstr(b)]] if b > 0 else ['sub', t, ['c', fstr(-b)]]


def fterm(rng, dom, info):
    disc = dom in ('n', 'k')
    pool = (DT_FUNS * 3 + CT_FUNS + ['step2']) if disc else (CT_FUNS * 3 + DT_FUNS + ['trap', 'trap', 'heav2'])
    name = rng.choice(pool)
    a, b = affine(rng)
    info['args'].append((name, a, b))
    arg = aff_tree(a, b)
    if name == 'trap':
        al = rng.choice(['0', '1/4', '1/2', '1', '2'])
        return ['trap', arg, al]
    if name == 'heav2':
        return ['heav2', arg, rng.choice(['0', '1', '1/4'])]
    if name == 'step2':
        return ['step2', arg, rng.choice(['0', '1/2', '1'])]
    return ['f', name, arg]


def ratfun(rng):
    c = rng.choice(['1', '2', '1/2', '3'])
    num = rng.choice([['c', '1'], ['var'], ['add', ['var'], ['c', rng.choice(['1', '2', '1/2'])]],
                      ['sub', ['mul', ['c', '2'], ['var']], ['c', '3']]])
    den = rng.choice([['add', ['mul', ['var'], ['var']], ['c', c]],
                      ['add', ['var'], ['c', rng.choice(['1/3', '7/3', '-2/3'])]]])
    return ['div', num, den]


def poly(rng):
    return rng.choice([['var'], ['mul', ['var'], ['var']], ['add', ['var'], ['c', '1']],
                       ['sub', ['c', '2'], ['mul', ['c', '3'], ['var']]], ['c', rng.choice(['2', '-1/2', '3/4'])]])


def term(rng, dom, info):
    r = rng.random()
    if r < 0.45:
        t = fterm(rng, dom, info)
        if rng.random() < 0.5:
            t = ['mul', rng.choice([poly, ratfun])(rng), t]
        return t
    if r < 0.6:
        return ['mul', fterm(rng, dom, info), fterm(rng, dom, info)]
    if r < 0.8:
        return ratfun(rng)
    if r < 0.9:
        return ['abs', aff_tree(*affine(rng))]
    return poly(rng)


def gen_tree(rng, dom, info):
    r = rng.random()
    if r < 0.18:
        # result valid only for var >= c0 (or another one-clause condition)
        c0 = rng.choice(['0', '0', '0', '1', '-1/2'])
        info['pw'].append(F(c0))
        op = rng.choice(['ge', 'ge', 'ge', 'gt'])
        return ['pw', op, ['var'], ['c', c0], term(rng, dom, info), ['undef']]
    if r < 0.3:
        c0 = rng.choice(['0', '1', '-1', '1/2'])
        info['pw'].append(F(c0))
        return ['pw', rng.choice(['lt', 'le', 'gt', 'ge']), ['var'], ['c', c0], term(rng, dom, info), term(rng, dom, info)]
    if r < 0.5 and dom in ('t', 'n'):
        # causal by construction: f(a v + b) g(v) with a > 0 >= b
        a = rng.choice([F(1), F(2), HALF])
        b = rng.choice([F(0), F(0), F(-1), -HALF])
        name = rng.choice(['Heaviside', 'UnitStep'] if dom == 'n' else ['Heaviside', 'Heaviside', 'DiracDelta'])
        info['args'].append((name, a, b))
        info['causal_by_construction'] = True
        g = rng.choice([poly, ratfun])(rng)
        t = ['mul', g, ['f', name, aff_tree(a, b)]]
        if rng.random() < 0.4:
            b2 = rng.choice([F(-1), F(-2)])
            info['args'].append(('Heaviside', F(1), b2))
            t = ['add', t, ['mul', poly(rng), ['f', 'Heaviside', aff_tree(F(1), b2)]]]
        return t
    n = rng.choice([1, 1, 2, 2, 3])
    t = term(rng, dom, info)
    for _ in range(n - 1):
        t = [rng.choice(['add', 'sub']), t, term(rng, dom, info)]
    return t


def dyadic(x, maxden=64):
    return x.denominator <= maxden and (x.denominator & (x.denominator - 1)) == 0


def gen_points(rng, info, n):
    pts = {F(0), F(-1), F(1), F(-3), F(5, 2), F(-1, 2)}
    eps = rng.choice([F(1, 16), F(1, 8), F(1, 32)])
    for name, a, b in info['args']:
        for bp in BREAKS.get(name, []):
            x0 = (bp - b) / a
            if dyadic(x0, 16):
                pts.update([x0, x0 - eps, x0 + eps])
    for c0 in info['pw']:
        pts.update([c0, c0 - eps, c0 + eps])
    pts.update([F(rng.choice([64, 1000, 4096])), F(-rng.choice([64, 1000, 4096])), F(rng.randint(-40, 40), 8)])
    pts = sorted(p for p in pts if dyadic(p))
    rng.shuffle(pts)
    return pts[:n]


def gen_exact_cases(rng, n):
    cases = []
    for i in range(n):
        dom = rng.choice(DOMAINS + ['t', 't', 'n'])
        info = {'args': [], 'pw': []}
        tree = gen_tree(rng, dom, info)
        pts = gen_points(rng, info, 10)
        mode = rng.choice(['scalar', 'scalar', 'scalar', 'list', 'array', 'tuple', 'both'])
        c = {'kind': 'expr', 'dom': dom, 'tree': tree, 'points': [fstr(p) for p in pts], 'mode': mode, 'tag': 'gen'}
        if dom in ('t', 'n') and rng.random() < 0.15:
            c['causal'] = True
        cases.append(c)
    return cases


def probe_cases():
    """single-function probes: always run; they attribute failures to a function and are the
    targeted search when a num_eq_sym theorem no longer checks"""
    cases = []
    for name in CT_FUNS + DT_FUNS:
        pts = {F(-3), F(-1), F(2), F(5, 2), F(1000), F(-1000), F(-7, 16), F(3, 8)}
        for bp in BREAKS[name]:
            pts.update([bp, bp - F(1, 16), bp + F(1, 16)])
        for dom in (['t', 'n'] if name in DT_FUNS + ['Heaviside', 'sign'] else ['t']):
            cases.append({'kind': 'expr', 'dom': dom, 'tree': ['f', name, ['var']], 'points': [fstr(p) for p in sorted(pts)],
                          'mode': 'scalar', 'tag': 'probe:' + name})
    for al in ['0', '1/4', '1/2', '1', '2']:
        a = F(al)
        pts = {F(-3), F(0), F(2), -HALF, HALF, -HALF - a / 2, -HALF + a / 2, HALF - a / 2, HALF + a / 2, HALF + a / 4, -HALF - a / 4,
               F(9, 16), F(-7, 16), F(1000)}
        cases.append({'kind': 'expr', 'dom': 't', 'tree': ['trap', ['var'], al], 'points': [fstr(p) for p in sorted(pts)],
                      'mode': 'scalar', 'tag': 'probe:trap'})
    for z in ['0', '1/4', '1']:
        pts = [F(-2), F(-1, 16), F(0), F(1, 16), F(3)]
        cases.append({'kind': 'expr', 'dom': 't', 'tree': ['heav2', ['var'], z], 'points': [fstr(p) for p in pts], 'mode': 'scalar', 'tag': 'probe:heav2'})
        cases.append({'kind': 'expr', 'dom': 'n', 'tree': ['step2', ['var'], z], 'points': [fstr(p) for p in pts], 'mode': 'scalar', 'tag': 'probe:step2'})
    # results valid for t >= 0 only, scalar and vector, negative first / later
    pw = ['pw', 'ge', ['var'], ['c', '0'], ['div', ['c', '1'], ['add', ['var'], ['c', '2']]], ['undef']]
    cases.append({'kind': 'expr', 'dom': 't', 'tree': pw, 'points': ['-1/1', '-1/16', '0/1', '1/2', '3/1'], 'mode': 'scalar', 'tag': 'probe:pw'})
    cases.append({'kind': 'expr', 'dom': 't', 'tree': pw, 'points': ['-1/1', '0/1', '1/2'], 'mode': 'list', 'tag': 'probe:pw'})
    cases.append({'kind': 'expr', 'dom': 't', 'tree': pw, 'points': ['1/2', '0/1', '-1/4', '2/1'], 'mode': 'array', 'tag': 'probe:pw'})
    cases.append({'kind': 'expr', 'dom': 't', 'tree': pw, 'points': ['1/2', '0/1', '4/1'], 'mode': 'list', 'tag': 'probe:pw'})
    # causal expressions
    cz = ['mul', ['add', ['var'], ['c', '1']], ['f', 'Heaviside', ['var']]]
    cases.append({'kind': 'expr', 'dom': 't', 'tree': cz, 'points': ['-2/1', '-1/16', '0/1', '1/16', '3/1'], 'mode': 'both', 'tag': 'probe:causal'})
    cases.append({'kind': 'expr', 'dom': 't', 'tree': ['div', ['c', '1'], ['add', ['mul', ['var'], ['var']], ['c', '1']]],
                  'points': ['-2/1', '-1/16', '0/1', '1/16', '3/1'], 'mode': 'both', 'causal': True, 'tag': 'probe:causal'})
    return cases


# ---------------------------------------------------------------------------
# Coq generation: statement templates (fixed), proofs by generic tactics
HDR = '''(* GENERATED by checks/c17.py (fixed statement templates) against Gen.NumFuncsGen. *)
From Coq Require Import QArith Qabs Lqa Bool List ZArith.
Require Import LT.FieldSec LT.NumEval Gen.NumFuncsGen.
'''
QTAC = '''Open Scope Q_scope.
Ltac disc_prep := repeat match goal with
  | H : ~ (_ \\/ _) |- _ => apply Decidable.not_or in H; destruct H
  | H : ~ False |- _ => clear H
  end.
'''
KSEC = '''Section S.
Variable K : fld.
Variable sn : K -> K.
Variable pi : K.
Variable int_of : K -> option Z.
Add Field KFs : (fth K).
Local Open Scope F_scope.
Ltac k_step := match goal with |- context [keqb K ?a ?b] => destruct (keqb_spec K a b) end; cbn [orb andb negb]; cbv beta iota.
Ltac sn_norm := repeat match goal with |- context [sn ?a] => match goal with |- context [sn ?b] =>
   first [constr_eq a b; fail 1 | replace (sn a) with (sn b) by (f_equal; ring)] end end.
Ltac k_solve := intros; repeat k_step; cbn [kz kpos k_iseven k_isodd] in *; sn_norm;
   solve [reflexivity | congruence | (field; auto) | (exfalso; auto) ].
'''


def q_theorem(name, stmt, prep=''):
    return ('Theorem %s : %s.\nProof. unfold disc1; cbn [t_fn t_trap t_heav2 t_step2 sym_tab num_tab]; gen_unfold.\n'
            '  intros. disc_prep. %s pw_solve. Qed.\nPrint Assumptions %s.\n' % (name, stmt, prep, name))


def theorem_files(em):
    """{filename: (text, function key that explains a failure, [theorem names], {name: statement})}"""
    files = {}

    def add(fn, key, thms, body):
        files[fn] = {'text': body, 'key': key, 'names': [t[0] for t in thms], 'stmts': dict(thms)}
    for cons, key in TF.FN1:
        st = 'forall x, ~ disc1 %s x -> oeq2 (t_fn sym_tab %s x) (t_fn num_tab %s x)' % (cons, cons, cons)
        nm = 'num_eq_sym_' + key
        add('C17_f_%s.v' % key, key, [(nm, st)], HDR + QTAC + q_theorem(nm, st))
    st = 'forall x al, ~ disc_trap x al -> oeq2 (t_trap sym_tab x al) (t_trap num_tab x al)'
    prep = ('match goal with H : ~ disc_trap ?x ?al |- _ => unfold disc_trap in H;\n'
            '    assert (0 <= al) by (destruct (Qlt_le_dec al 0); [exfalso; apply H; left; assumption | assumption]);\n'
            '    assert (al == 0 -> ~ x == 1#2 /\\ ~ x == -(1#2)) by (intros ?; split; intros ?; apply H; right; split; auto);\n'
            '    clear H end.')
    add('C17_f_trap.v', 'trap', [('num_eq_sym_trap', st)], HDR + QTAC + q_theorem('num_eq_sym_trap', st, prep))
    st = 'forall x h0, ~ x == 0 -> oeq2 (t_heav2 sym_tab x h0) (t_heav2 num_tab x h0)'
    add('C17_f_heav2.v', 'heav2', [('num_eq_sym_Heaviside2', st)], HDR + QTAC + q_theorem('num_eq_sym_Heaviside2', st))
    st = 'forall x z0, oeq2 (t_step2 sym_tab x z0) (t_step2 num_tab x z0)'
    add('C17_f_step2.v', 'step2', [('num_eq_sym_UnitStep2', st)], HDR + QTAC + q_theorem('num_eq_sym_UnitStep2', st))
    # the two symbolic definitions (rewrite body, eval body) of a function agree
    RW = {'rect': ('forall x, ~ x == 1#2 -> ~ x == -(1#2) -> oeq2 (%s) (%s)', ['x']),
          'dtrect': ('forall x, oeq2 (%s) (%s)', ['x']), 'tri': ('forall x, oeq2 (%s) (%s)', ['x']),
          'ramp': ('forall x, oeq2 (%s) (%s)', ['x']), 'rampstep': ('forall x, oeq2 (%s) (%s)', ['x'])}

    def wrap(nm, args):
        f = em.funs[nm]
        t = '%s %s' % (nm, ' '.join(args))
        return t if f['rtype'] == 'OQ' else 'Some (%s)' % t
    for cl, (tmpl, args) in RW.items():
        if 'rw_' + cl not in em.funs or em.funs['rw_' + cl]['domain'] != 'Q':
            continue
        st = tmpl % (wrap('rw_' + cl, args), wrap('sym_' + cl, args))
        nm = 'rw_eq_eval_' + cl
        add('C17_rw_%s.v' % cl, cl, [(nm, st)], HDR + QTAC + q_theorem(nm, st))
    if 'rw_trap' in em.funs and em.funs['rw_trap']['domain'] == 'Q':
        thms = []
        body = HDR + QTAC
        for tag, al, hyp in (('0', '0', '~ x == 1#2 -> ~ x == -(1#2) -> '), ('1', '1', ''), ('half', '(1#2)', ''), ('2', '2', '')):
            st = 'forall x, %soeq2 (%s) (%s)' % (hyp, wrap('rw_trap', ['x', al]), wrap('sym_trap', ['x', al]))
            nm = 'rw_eq_eval_trap_' + tag
            thms.append((nm, st))
            body += q_theorem(nm, st)
        add('C17_rw_trap.v', 'trap', thms, body)
    # sinc family over an abstract field
    kf = {}
    kf['sincn'] = [('num_eq_sym_sincn', 'forall x, sym_sincn K sn pi x = num_sincn K sn pi x', 'gen_unfold. k_solve.'),
                   ('rw_eq_eval_sincn', 'forall x, x <> 0 -> rw_sincn K sn pi x = sym_sincn K sn pi x', 'gen_unfold. k_solve.')]
    kf['sincu'] = [('num_eq_sym_sincu', 'forall x, sym_sincu K sn x = num_sincu K sn x', 'gen_unfold. k_solve.'),
                   ('rw_eq_eval_sincu', 'forall x, x <> 0 -> rw_sincu K sn x = sym_sincu K sn x', 'gen_unfold. k_solve.')]
    # lambdify prints sympy's sinc(x) as sinc(x/pi) (contract checked on every run against the real printer)
    kf['sinc'] = [('num_eq_sym_sinc', 'pi <> 0 -> forall x, spec_sinc K sn x = num_sinc K sn pi (x / pi)',
                   'gen_unfold. intros Hpi x. replace (x / pi * pi) with x by (field; exact Hpi). k_solve.')]
    kf['psinc'] = [('num_eq_sym_psinc_generic',
                    'forall M x, x <> 0 -> int_of x = None -> sn (pi * x) <> 0 -> sym_psinc K sn pi int_of M x = num_psinc K sn pi M x',
                    'gen_unfold. intros M x Hx Hi Hs. rewrite ?Hi. k_solve.'),
                   ('num_eq_sym_psinc_zero',
                    'forall M, int_of 0 = Some 0%Z -> sn (pi * 0) = 0 -> sym_psinc K sn pi int_of M 0 = num_psinc K sn pi M 0',
                    'gen_unfold. intros M Hi Hs. rewrite ?Hi, ?Hs. k_solve.'),
                   ('rw_eq_eval_psinc',
                    'forall M x, x <> 0 -> int_of x = None -> rw_psinc K sn pi M x = sym_psinc K sn pi int_of M x',
                    'gen_unfold. intros M x Hx Hi. rewrite ?Hi. k_solve.')]
    # at an integer x = k (M = m integer) the symbolic value must be the continuous extension (-1)^(k (m-1))
    kf['psinc_int'] = [('sym_psinc_int',
                        'forall M x m k, int_of M = Some m -> int_of x = Some k -> sym_psinc K sn pi int_of M x = psinc_int_spec K m k',
                        'gen_unfold. intros M x m k HM Hx. rewrite ?HM, ?Hx. cbn [k_iseven k_isodd].\n'
                        '  rewrite ?Z.even_mul, ?Z.even_sub, <- ?Z.negb_even. change (Z.even 1) with false.\n'
                        '  destruct (Z.even k) eqn:Ek; destruct (Z.even m) eqn:Em; cbn [negb orb andb xorb eqb Bool.eqb]; k_solve.')]
    for key, thms in kf.items():
        body = HDR + KSEC
        for nm, st, pr in thms:
            body += 'Theorem %s : %s.\nProof. %s Qed.\n' % (nm, st, pr)
        body += 'End S.\n' + ''.join('Print Assumptions %s.\n' % nm for nm, _, _ in thms)
        add('C17_k_%s.v' % key, 'psinc' if key == 'psinc_int' else key, [(nm, st) for nm, st, _ in thms], body)
    return files


def expr_file(ok_keys, causal_funs):
    """expression-level theorem over the functions whose num_eq_sym theorem was accepted"""
    imps = ''.join('Require Import Gen.C17_f_%s.\n' % k for k in ok_keys)
    okf = '\n'.join('  | %s => %s' % (cons, 'true' if key in ok_keys else 'false') for cons, key in TF.FN1)
    b = lambda k: 'true' if k in ok_keys else 'false'
    glue = []
    for cons, key in TF.FN1:
        glue.append('  - %s' % ('apply num_eq_sym_%s; assumption.' % key if key in ok_keys else 'discriminate.'))
    t = HDR + imps + QTAC + '''
Definition ok_fn (f : fn1) : bool := match f with
%s
  end.
(* For every expression e built from the variable, rational constants, + - * / unary - abs, the accepted
   function symbols and Piecewise clauses, and every rational point x at which no function argument is a
   discontinuity of that function: the numeric evaluation of e at x equals exact substitution. *)
Theorem evaluate_agrees_with_subs : forall e x,
  uses_only ok_fn %s %s %s e = true -> no_disc sym_tab e x -> eval num_tab e x = eval sym_tab e x.
Proof.
  apply eval_agree.
  - intros f v Hok Hd. destruct f; cbn [ok_fn] in Hok.
  %s
  - intros Hok v al Hd. %s
  - intros Hok v h0 Hd. %s
  - intros Hok v z0. %s
Qed.
Print Assumptions evaluate_agrees_with_subs.
''' % (okf, b('trap'), b('heav2'), b('step2'), '\n  '.join(glue),
       'apply num_eq_sym_trap; assumption.' if 'trap' in ok_keys else 'discriminate.',
       'apply num_eq_sym_Heaviside2; assumption.' if 'heav2' in ok_keys else 'discriminate.',
       'apply num_eq_sym_UnitStep2.' if 'step2' in ok_keys else 'discriminate.')
    # CausalChecker: each accepted factor function vanishes at the negative arguments causal_arg guarantees
    thms = ['evaluate_agrees_with_subs']
    for fn in causal_funs:
        cons = FN1[fn]
        nm = 'causal_factor_vanishes_' + fn
        t += ('Theorem %s : forall a b t, causal_arg a b = true -> t < 0 -> oeq2 (t_fn sym_tab %s (a * t + b)) (Some 0).\n'
              'Proof. intros a b t H Ht. pose proof (causal_arg_sound_local a b t H Ht) as Hn. revert Hn. generalize (a * t + b). clear.\n'
              '  cbn [t_fn sym_tab]; gen_unfold. pw_solve. Qed.\nPrint Assumptions %s.\n' % (nm, cons, nm))
        thms.append(nm)
    pre = '''Lemma causal_arg_sound_local : forall a b t, causal_arg a b = true -> t < 0 -> a * t + b < 0.
Proof. gen_unfold. intros a b t H Ht.
  destruct (qlt_spec (Qmake 0 1) a); cbn [andb] in H; [|discriminate].
  assert (Hb : b <= 0).
  { destruct (qlt_spec b (Qmake 0 1)); [lra|]. destruct (qeq_spec b (Qmake 0 1)); [lra | discriminate]. }
  assert (a * t < 0); [|lra].
  setoid_replace (a * t) with (- (a * - t)) by ring.
  assert (0 < a * - t); [|lra]. apply Qmult_lt_0_compat; lra. Qed.
'''
    t = t.replace('\nDefinition ok_fn', '\n' + pre + '\nDefinition ok_fn', 1)
    return t, thms


# ---- correspondence files ---------------------------------------------------------
def qcl(s):
    x = F(s)
    return '(qc (%d) %d)' % (x.numerator, x.denominator)


def ex_coq(tr):
    k = tr[0]
    if k == 'var':
        return 'EVar'
    if k == 'c':
        return '(EC %s)' % qcl(tr[1])
    if k in ('add', 'sub', 'mul', 'div'):
        return '(E%s %s %s)' % (k.capitalize(), ex_coq(tr[1]), ex_coq(tr[2]))
    if k == 'neg':
        return '(ENeg %s)' % ex_coq(tr[1])
    if k == 'abs':
        return '(EAbsv %s)' % ex_coq(tr[1])
    if k == 'f':
        return '(EF %s %s)' % (FN1[tr[1]], ex_coq(tr[2]))
    if k == 'trap':
        return '(ETrap %s %s)' % (ex_coq(tr[1]), qcl(tr[2]))
    if k == 'heav2':
        return '(EHeav2 %s %s)' % (ex_coq(tr[1]), qcl(tr[2]))
    if k == 'step2':
        return '(EStep2 %s %s)' % (ex_coq(tr[1]), qcl(tr[2]))
    if k == 'pw':
        return '(EPw O%s %s %s %s %s)' % (tr[1].capitalize(), ex_coq(tr[2]), ex_coq(tr[3]), ex_coq(tr[4]), ex_coq(tr[5]))
    if k == 'undef':
        return 'EUndef'
    raise ValueError(k)


CASES_HDR = '''From Coq Require Import QArith Qcanon Bool List ZArith.
Require Import LT.FieldSec LT.NumEval Gen.NumFuncsGen.
Import ListNotations.
Definition oqeq (a b : option Qc) : bool :=
  match a, b with Some x, Some y => qc_eqb x y | None, None => true | _, _ => false end.
Fixpoint lqeq (a b : list Qc) : bool :=
  match a, b with [] , [] => true | x :: r, y :: s => qc_eqb x y && lqeq r s | _, _ => false end.
Definition outeq (a b : outv) : bool :=
  match a, b with
  | OScalar x, OScalar y => qc_eqb x y | OVector xs, OVector ys => lqeq xs ys | ORaise, ORaise => true | _, _ => false end.
Definition nrun := run num_tab causal_guard causal_value evaluate_expr_prog.
Definition failing (l : list (nat * bool)) : list nat := map fst (filter (fun p => negb (snd p)) l).
'''


def cases_file(items):
    """items: list of (id, 'sym'|'num'|'vec', coq boolean text)"""
    out = [CASES_HDR]
    for kind in ('sym', 'num', 'vec'):
        out.append('Definition %scases : list (nat * bool) := [\n%s].' % (
            kind, ';\n'.join('(%d%%nat, %s)' % (i, t) for i, k, t in items if k == kind)))
    out.append('Eval vm_compute in (failing symcases).\nEval vm_compute in (failing numcases).\nEval vm_compute in (failing veccases).\n')
    return '\n'.join(out)


def parse_lists(out):
    res = []
    for m in re.finditer(r'=\s*\[(.*?)\]\s*:\s*list nat', out, re.S):
        body = m.group(1).strip()
        res.append([int(x.replace('%nat', '').strip()) for x in body.split(';')] if body else [])
    return res
