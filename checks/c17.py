"""C17 — numerical evaluation of an expression equals its symbolic value  (partial)

  translate  lcapy/expr.py (nested numeric definitions of Expr.evaluate, lambdify table, causal
             short-circuit, scalar/list structure), lcapy/config.py, lcapy/extrafunctions.py
             (eval / rewrite bodies), lcapy/acdc.py (CausalChecker argument test)
                                       -> Gen/NumFuncsGen.v   (tools/tr_numfuncs.py)
             lcapy/simulator.py, lcapy/mnacpts.py (_r_model), lcapy/sexpr.py (bilinear substitution, time bases of
             _response_impulse_invariance)
                                       -> Gen/NumSimGen.v     (tools/tr_numsim.py)
  prove      Gen/C17_f_<key>.v, C17_rw_<cls>.v  num_eq_sym_<f>, rw_eq_eval_<f> (fixed templates below)
             props/C17.v      causal masking, no extrapolation, list = map (about the generated guard/program)
             props/C17sim.v   one-step facts of the companion models and of the bilinear substitution
             props/C17resp.v  response_delay_time_base, response_h_sampled_from_zero (theory NumEvalResp.v)
             Gen/C17_expr.v   evaluate_agrees_with_subs: for ALL expressions over the proved functions
  correspond real evaluate() and exact sympy substitution vs the two instantiations of the model,
             evaluated by vm_compute inside Coq at dyadic rational points (exact verdicts only)
  search     independent oracles: exact comparison evaluate vs substitution away from discontinuities
             (python Fractions); float comparison vs sympy.N(...,50) for the transcendental class;
             step-halving convergence of Simulator / response() against closed forms; response() for every
             method on time windows starting at / before / after 0, with and without a delay factor
Partial: NumPy floating point, lambdify's printer, convergence as h -> 0 for arbitrary circuits are
outside the model (named in the evidence).
"""
import hashlib
import json
import math
import os
import random
import re
import sys
from fractions import Fraction

sys.path.insert(0, os.path.dirname(os.path.dirname(os.path.abspath(__file__))))
from vlib import core
sys.path.insert(0, os.path.join(core.VERIF, 'tools'))
import tr_numfuncs as TF
import tr_numsim as TS

PID = 'C17'
MANIFEST = {
    'text': 'Coq theorems, regenerated from the source on every run: for each of the numeric definitions nested in '
            'Expr.evaluate (rect, sign, dtsign, dtrect, trap, tri, ramp, rampstep, dirac, unitimpulse, unitstep, heaviside '
            'over Q; sinc, sincn, sincu, psinc over an abstract field with abstract sin/pi) num_eq_sym_<f>: away from the '
            'discontinuities of f the numeric definition equals the symbolic eval body (and the rewrite body equals the eval '
            'body); by induction over all expressions built from rational operations, these functions and Piecewise '
            'conditions, numeric evaluation equals exact substitution wherever no argument is a discontinuity; the causal '
            'short-circuit zeroes exactly the negative arguments of causal expressions; a result conditioned on t >= c '
            'raises below c; list evaluation is the element-wise map of scalar evaluation; the trapezoidal / backward-Euler '
            'companion models are exact on affine / constant drives with explicit O(h^3) / O(h^2) one-step defects; the entry '
            'list of SimulatedComponent.stamp is the conductance stamp, so the system assembled at step k adds exactly '
            'geq(dt_k) (x(i1) - x(i3)) to the two rows of each reactive component (sim_stamped_row, any circuit).  The '
            'models are tied to the code by in-Coq evaluation (vm_compute over Qc) against the real evaluate() and exact '
            'sympy substitution at dyadic rational points (exact verdicts) and at arbitrary float points / large values (verdict '
            '|model - exact value of the float| <= 1e-9 (1 + |model|) computed in Qc); every step of real Simulator runs of '
            'multi-component circuits on uniform and non-uniform time vectors is re-checked in Coq against the stamped system '
            '(A + stamps(geq(dt_k))) x_k = Z(t_k) + veq(dt_k, x_(k-1)) built from the translated formulas.  response(): the time-base '
            'bookkeeping of _response_impulse_invariance is translated (which vector the impulse response is sampled on, which one is '
            'the abscissa of the interpolation that applies a delay exp(-s T), where the interpolant is read) and response_delay_time_base '
            'is proved about it: for every node-reproducing interpolation operator, window start t0, step and delay of m whole steps the '
            'delayed output is the convolved output moved by m samples, i.e. it is sampled on the caller\'s grid '
            '(response_h_sampled_from_zero: the impulse response is sampled at k dt); the recorded interp1d call of real runs is '
            're-evaluated in Coq against the translated bases and an exact linear-interpolation model.  Search: response() for every '
            'method name on time windows starting at, before and after 0, with and without delay, step / exponential inputs switched '
            'on inside the window, against closed-form responses (error <= C dt on the fine grid and shrinking with the step).',
    'note': 'PARTIAL: NumPy floating point, the lambdify printer, the limit()/simplify() fall-backs of evaluate, Bessel functions, '
            'the overflow clamp of exp, numpy.linalg.inv (its result is re-checked per step, not modelled) and convergence of '
            'Simulator/response as h -> 0 for arbitrary circuits (incl. the size of the interpolation error for delays that are not whole '
            'steps, scipy interp1d/lfilter/convolve) are outside the model; they are exercised only by the float '
            'search oracle (tolerance 1e-9, reported only above 1e-6).  Trusted: Coq '
            'kernel/vm_compute; tools/tr_numfuncs.py, tools/tr_numsim.py; statement templates in checks/c17.py; hand-written '
            'specification of SymPy Heaviside/sign/DiracDelta/sinc in coq/theory/NumEval.v (validated by the exact-substitution '
            'side of the correspondence); float -> rational canonicalisation limit_denominator(10^6) for dyadic inputs.',
    'technique': 'Coq proof (case analysis + lra / field) over definitions translated from source + in-Coq correspondence '
                 'evaluation + exact and float search oracles',
}

F = Fraction
HALF = F(1, 2)
# break points (where a definition changes branch) and discontinuities (excluded by the property)
BREAKS = {'Heaviside': [F(0)], 'DiracDelta': [F(0)], 'sign': [F(0)], 'rect': [-HALF, HALF], 'tri': [F(-1), F(0), F(1)],
          'ramp': [F(0)], 'rampstep': [F(0), F(1)], 'UnitStep': [F(0)], 'UnitImpulse': [F(0)], 'dtrect': [-HALF, HALF],
          'dtsign': [F(0)], 'trap': [-HALF, HALF], 'heav2': [F(0)], 'step2': [F(0)]}
DISC = {'Heaviside': [F(0)], 'DiracDelta': [F(0)], 'sign': [F(0)], 'rect': [-HALF, HALF], 'heav2': [F(0)]}
FN1 = dict((k, c) for c, k in TF.FN1)          # key -> Coq constructor
CT_FUNS = ['Heaviside', 'DiracDelta', 'sign', 'rect', 'tri', 'ramp', 'rampstep']
DT_FUNS = ['UnitStep', 'UnitImpulse', 'dtrect', 'dtsign']
DOMAINS = ['t', 'f', 'omega', 's', 'n', 'k', 'z']


def fstr(x):
    x = F(x)
    return '%d/%d' % (x.numerator, x.denominator)


# ---------------------------------------------------------------------------
# independent exact evaluator (mathematical definitions; used for the
# discontinuity flags and for the attribution of a failure to a function)
class Singular(Exception):
    pass


def math_fn(name, u):
    if name == 'Heaviside':
        return F(0) if u < 0 else (HALF if u == 0 else F(1))
    if name == 'DiracDelta':
        if u == 0:
            raise Singular('delta')
        return F(0)
    if name == 'sign':
        return F(-1) if u < 0 else (F(0) if u == 0 else F(1))
    if name == 'rect':
        return F(1) if abs(u) < HALF else (HALF if abs(u) == HALF else F(0))
    if name == 'tri':
        return max(F(0), 1 - abs(u))
    if name == 'ramp':
        return max(F(0), u)
    if name == 'rampstep':
        return min(max(u, F(0)), F(1))
    if name == 'UnitStep':
        return F(1) if u >= 0 else F(0)
    if name == 'UnitImpulse':
        return F(1) if u == 0 else F(0)
    if name == 'dtrect':
        return F(1) if -HALF <= u < HALF else F(0)
    if name == 'dtsign':
        return F(1) if u >= 0 else F(-1)
    raise ValueError(name)


def math_trap(u, a):
    f = abs(u) - HALF
    if a == 0:
        return F(1) if abs(u) <= HALF else F(0)
    if f >= a / 2:
        return F(0)
    if f <= -a / 2:
        return F(1)
    return HALF - f / a


def pyeval(tr, x, apps):
    """value (Fraction) or None (no Piecewise clause); apps collects (function, argument, at_discontinuity)"""
    k = tr[0]
    if k == 'var':
        return x
    if k == 'c':
        return F(tr[1])
    if k in ('add', 'sub', 'mul', 'div'):
        a, b = pyeval(tr[1], x, apps), pyeval(tr[2], x, apps)
        if a is None or b is None:
            return None
        if k == 'div':
            if b == 0:
                raise Singular('div0')
            return a / b
        return a + b if k == 'add' else (a - b if k == 'sub' else a * b)
    if k in ('neg', 'abs'):
        a = pyeval(tr[1], x, apps)
        return None if a is None else (-a if k == 'neg' else abs(a))
    if k == 'f':
        u = pyeval(tr[2], x, apps)
        if u is None:
            return None
        apps.append((tr[1], u, u in DISC.get(tr[1], [])))
        return math_fn(tr[1], u)
    if k == 'trap':
        u = pyeval(tr[1], x, apps)
        if u is None:
            return None
        a = F(tr[2])
        apps.append(('trap', u, a == 0 and abs(u) == HALF))
        return math_trap(u, a)
    if k == 'heav2':
        u = pyeval(tr[1], x, apps)
        if u is None:
            return None
        apps.append(('heav2', u, u == 0))
        return F(0) if u < 0 else (F(tr[2]) if u == 0 else F(1))
    if k == 'step2':
        u = pyeval(tr[1], x, apps)
        if u is None:
            return None
        apps.append(('step2', u, False))
        return F(0) if u < 0 else (F(tr[2]) if u == 0 else F(1))
    if k == 'pw':
        a, b = pyeval(tr[2], x, apps), pyeval(tr[3], x, apps)
        if a is None or b is None:
            return None
        c = {'lt': a < b, 'le': a <= b, 'gt': a > b, 'ge': a >= b}[tr[1]]
        if a == b:
            apps.append(('pw', a - b, True))       # on the boundary of a Piecewise condition
        return pyeval(tr[4], x, apps) if c else pyeval(tr[5], x, apps)
    if k == 'undef':
        return None
    raise ValueError(k)


def cls_of(fname, u):
    """class of an argument value, used in finding keys"""
    if u in BREAKS.get(fname, []):
        return 'at' + (str(u.numerator) if u.denominator == 1 else '%dover%d' % (u.numerator, u.denominator))
    return 'neg' if u < 0 else 'pos'


# ---------------------------------------------------------------------------
# generators (exact piecewise class)
def affine(rng, simple=False):
    a = rng.choice([F(1), F(1), F(1), F(2), F(-1), HALF, F(4)])
    b = rng.choice([F(0), F(0), F(1), F(-1), HALF, -HALF, F(2), F(-3, 2), F(1, 4)])
    if simple:
        a, b = F(1), rng.choice([F(0), F(0), F(-1), HALF])
    return a, b


def aff_tree(a, b):
    t = ['var'] if a == 1 else ['mul', ['c', fstr(a)], ['var']]
    if b == 0:
        return t
    return ['add', t, ['c', fstr(b)]] if b > 0 else ['sub', t, ['c', fstr(-b)]]


def fterm(rng, dom, info):
    disc = dom in ('n', 'k')
    pool = (DT_FUNS * 3 + CT_FUNS + ['step2']) if disc else (CT_FUNS * 3 + DT_FUNS + ['trap', 'trap', 'heav2'])
    name = rng.choice(pool)
    a, b = affine(rng)
    info['args'].append((name, a, b))
    arg = aff_tree(a, b)
    if name == 'trap':
        al = rng.choice(['0', '1/4', '1/2', '1', '2'])
        return ['trap', arg, al]
    if name == 'heav2':
        return ['heav2', arg, rng.choice(['0', '1', '1/4'])]
    if name == 'step2':
        return ['step2', arg, rng.choice(['0', '1/2', '1'])]
    return ['f', name, arg]


def ratfun(rng):
    c = rng.choice(['1', '2', '1/2', '3'])
    num = rng.choice([['c', '1'], ['var'], ['add', ['var'], ['c', rng.choice(['1', '2', '1/2'])]],
                      ['sub', ['mul', ['c', '2'], ['var']], ['c', '3']]])
    den = rng.choice([['add', ['mul', ['var'], ['var']], ['c', c]],
                      ['add', ['var'], ['c', rng.choice(['1/3', '7/3', '-2/3'])]]])
    return ['div', num, den]


def poly(rng):
    return rng.choice([['var'], ['mul', ['var'], ['var']], ['add', ['var'], ['c', '1']],
                       ['sub', ['c', '2'], ['mul', ['c', '3'], ['var']]], ['c', rng.choice(['2', '-1/2', '3/4'])]])


def term(rng, dom, info):
    r = rng.random()
    if r < 0.45:
        t = fterm(rng, dom, info)
        if rng.random() < 0.5:
            t = ['mul', rng.choice([poly, ratfun])(rng), t]
        return t
    if r < 0.6:
        return ['mul', fterm(rng, dom, info), fterm(rng, dom, info)]
    if r < 0.8:
        return ratfun(rng)
    if r < 0.9:
        return ['abs', aff_tree(*affine(rng))]
    return poly(rng)


def gen_tree(rng, dom, info):
    if dom == 'z':
        # lcapy declares z as a non-real symbol: sympy folds UnitImpulse(4 z), sign(z - 1) ... at construction
        # using that assumption, so only rational functions are meaningful at real sample points
        t = rng.choice([ratfun, poly])(rng)
        for _ in range(rng.choice([0, 1, 2])):
            t = [rng.choice(['add', 'sub', 'mul']), t, rng.choice([ratfun, poly, lambda g: ['abs', aff_tree(*affine(g))]])(rng)]
        return t
    r = rng.random()
    if r < 0.18:
        # result valid only for var >= c0 (or another one-clause condition)
        c0 = rng.choice(['0', '0', '0', '1', '-1/2'])
        info['pw'].append(F(c0))
        op = rng.choice(['ge', 'ge', 'ge', 'gt'])
        return ['pw', op, ['var'], ['c', c0], term(rng, dom, info), ['undef']]
    if r < 0.3:
        c0 = rng.choice(['0', '1', '-1', '1/2'])
        info['pw'].append(F(c0))
        return ['pw', rng.choice(['lt', 'le', 'gt', 'ge']), ['var'], ['c', c0], term(rng, dom, info), term(rng, dom, info)]
    if r < 0.5 and dom in ('t', 'n'):
        # causal by construction: f(a v + b) g(v) with a > 0 >= b
        a = rng.choice([F(1), F(2), HALF])
        b = rng.choice([F(0), F(0), F(-1), -HALF])
        name = rng.choice(['Heaviside', 'UnitStep'] if dom == 'n' else ['Heaviside', 'Heaviside', 'DiracDelta'])
        info['args'].append((name, a, b))
        info['causal_by_construction'] = True
        g = rng.choice([poly, ratfun])(rng)
        t = ['mul', g, ['f', name, aff_tree(a, b)]]
        if rng.random() < 0.4:
            b2 = rng.choice([F(-1), F(-2)])
            info['args'].append(('Heaviside', F(1), b2))
            t = ['add', t, ['mul', poly(rng), ['f', 'Heaviside', aff_tree(F(1), b2)]]]
        return t
    n = rng.choice([1, 1, 2, 2, 3])
    t = term(rng, dom, info)
    for _ in range(n - 1):
        t = [rng.choice(['add', 'sub']), t, term(rng, dom, info)]
    return t


REMAP = {'Heaviside': 'UnitStep', 'DiracDelta': 'UnitImpulse', 'rect': 'dtrect', 'sign': 'dtsign'}


def canon_tree(tr, dom):
    """nexpr()/kexpr() replace Heaviside, DiracDelta, rect, sign by their discrete-time variants
    (functions.function_mapping; a two-argument Heaviside loses its second argument)"""
    if dom not in ('n', 'k') or not isinstance(tr, list):
        return tr
    if tr[0] == 'f':
        return ['f', REMAP.get(tr[1], tr[1]), canon_tree(tr[2], dom)]
    if tr[0] == 'heav2':
        return ['f', 'UnitStep', canon_tree(tr[1], dom)]
    return [tr[0]] + [canon_tree(x, dom) for x in tr[1:]]


def dyadic(x, maxden=64):
    return x.denominator <= maxden and (x.denominator & (x.denominator - 1)) == 0


def gen_points(rng, info, n):
    pts = {F(0), F(-1), F(1), F(-3), F(5, 2), F(-1, 2)}
    eps = rng.choice([F(1, 16), F(1, 8), F(1, 32)])
    for name, a, b in info['args']:
        for bp in BREAKS.get(name, []):
            x0 = (bp - b) / a
            if dyadic(x0, 16):
                pts.update([x0, x0 - eps, x0 + eps])
    for c0 in info['pw']:
        pts.update([c0, c0 - eps, c0 + eps])
    pts.update([F(rng.choice([64, 1000, 4096])), F(-rng.choice([64, 1000, 4096])), F(rng.randint(-40, 40), 8)])
    pts = sorted(p for p in pts if dyadic(p))
    rng.shuffle(pts)
    return pts[:n + 4]


def regular(tree, x):
    """not a singular point (Dirac delta at 0, vanishing denominator): there evaluate falls back to
    sympy limit()/simplify(), which is outside the model (and can be very slow)"""
    try:
        pyeval(tree, x, [])
        return True
    except Singular:
        return False


def gen_exact_cases(rng, n):
    cases = []
    for i in range(n):
        dom = rng.choice(DOMAINS + ['t', 't', 'n'])
        info = {'args': [], 'pw': []}
        tree = gen_tree(rng, dom, info)
        tree = canon_tree(tree, dom)
        pts = [p for p in gen_points(rng, info, 10) if regular(tree, p) and (dom not in ('n', 'k') or p.denominator == 1)][:10]
        if len(pts) < 4:
            pts = sorted(set(pts + [F(-2), F(0), F(1), F(3), F(7)]))
            pts = [p for p in pts if regular(tree, p)]
        if dom not in ('n', 'k'):
            # two arbitrary float points (their exact binary value is the point): compared with a tolerance verdict
            for _ in range(2):
                p = F(rng.uniform(-4, 4))
                if regular(tree, p):
                    pts.append(p)
        mode = rng.choice(['scalar', 'scalar', 'scalar', 'list', 'array', 'tuple', 'both'])
        c = {'kind': 'expr', 'dom': dom, 'tree': tree, 'points': [fstr(p) for p in pts], 'mode': mode, 'tag': 'gen'}
        if dom in ('t', 'n') and rng.random() < 0.15:
            c['causal'] = True
        cases.append(c)
    return cases


def probe_cases():
    """single-function probes: always run; they attribute failures to a function and are the
    targeted search when a num_eq_sym theorem no longer checks"""
    cases = []
    for name in CT_FUNS + DT_FUNS:
        pts = {F(-3), F(-1), F(2), F(5, 2), F(1000), F(-1000), F(-7, 16), F(3, 8)}
        for bp in BREAKS[name]:
            pts.update([bp, bp - F(1, 16), bp + F(1, 16)])
        for dom in (['t', 'n'] if name in DT_FUNS + ['Heaviside', 'sign'] else ['t']):
            tr = canon_tree(['f', name, ['var']], dom)
            ps = [p for p in sorted(pts) if dom == 't' or p.denominator == 1]
            cases.append({'kind': 'expr', 'dom': dom, 'tree': tr, 'points': [fstr(p) for p in ps],
                          'mode': 'scalar', 'tag': 'probe:' + tr[1]})
    for al in ['0', '1/4', '1/2', '1', '2']:
        a = F(al)
        pts = {F(-3), F(0), F(2), -HALF, HALF, -HALF - a / 2, -HALF + a / 2, HALF - a / 2, HALF + a / 2, HALF + a / 4, -HALF - a / 4,
               F(9, 16), F(-7, 16), F(1000)}
        cases.append({'kind': 'expr', 'dom': 't', 'tree': ['trap', ['var'], al], 'points': [fstr(p) for p in sorted(pts)],
                      'mode': 'scalar', 'tag': 'probe:trap'})
    for z in ['0', '1/4', '1']:
        pts = [F(-2), F(-1, 16), F(0), F(1, 16), F(3)]
        cases.append({'kind': 'expr', 'dom': 't', 'tree': ['heav2', ['var'], z], 'points': [fstr(p) for p in pts], 'mode': 'scalar', 'tag': 'probe:heav2'})
        cases.append({'kind': 'expr', 'dom': 'n', 'tree': ['step2', ['var'], z], 'points': ['-2/1', '-1/1', '0/1', '1/1', '3/1'], 'mode': 'scalar', 'tag': 'probe:step2'})
        cases.append({'kind': 'expr', 'dom': 't', 'tree': ['step2', ['var'], z], 'points': [fstr(p) for p in pts], 'mode': 'scalar', 'tag': 'probe:step2'})
    # results valid for t >= 0 only, scalar and vector, negative first / later
    pw = ['pw', 'ge', ['var'], ['c', '0'], ['div', ['c', '1'], ['add', ['var'], ['c', '2']]], ['undef']]
    cases.append({'kind': 'expr', 'dom': 't', 'tree': pw, 'points': ['-1/1', '-1/16', '0/1', '1/2', '3/1'], 'mode': 'scalar', 'tag': 'probe:pw'})
    cases.append({'kind': 'expr', 'dom': 't', 'tree': pw, 'points': ['-1/1', '0/1', '1/2'], 'mode': 'list', 'tag': 'probe:pw'})
    cases.append({'kind': 'expr', 'dom': 't', 'tree': pw, 'points': ['1/2', '0/1', '-1/4', '2/1'], 'mode': 'array', 'tag': 'probe:pw'})
    cases.append({'kind': 'expr', 'dom': 't', 'tree': pw, 'points': ['1/2', '0/1', '4/1'], 'mode': 'list', 'tag': 'probe:pw'})
    # causal expressions
    cz = ['mul', ['add', ['var'], ['c', '1']], ['f', 'Heaviside', ['var']]]
    cases.append({'kind': 'expr', 'dom': 't', 'tree': cz, 'points': ['-2/1', '-1/16', '0/1', '1/16', '3/1'], 'mode': 'both', 'tag': 'probe:causal'})
    cases.append({'kind': 'expr', 'dom': 't', 'tree': ['div', ['c', '1'], ['add', ['mul', ['var'], ['var']], ['c', '1']]],
                  'points': ['-2/1', '-1/16', '0/1', '1/16', '3/1'], 'mode': 'both', 'causal': True, 'tag': 'probe:causal'})
    # not causal: the step starts before t = 0 (guards CausalChecker's argument test)
    cases.append({'kind': 'expr', 'dom': 't', 'tree': ['mul', ['add', ['var'], ['c', '2']], ['f', 'Heaviside', ['add', ['var'], ['c', '1']]]],
                  'points': ['-2/1', '-1/2', '-1/16', '0/1', '3/1'], 'mode': 'both', 'tag': 'probe:causal'})
    cases.append({'kind': 'expr', 'dom': 't', 'tree': ['mul', ['var'], ['f', 'Heaviside', ['sub', ['c', '1'], ['var']]]],
                  'points': ['-2/1', '-1/2', '0/1', '1/2', '3/1'], 'mode': 'scalar', 'tag': 'probe:causal'})
    return cases


# ---------------------------------------------------------------------------
# Coq generation: statement templates (fixed), proofs by generic tactics
HDR = '''(* GENERATED by checks/c17.py (fixed statement templates) against Gen.NumFuncsGen. *)
From Coq Require Import QArith Qabs Lqa Bool List ZArith.
Require Import LT.FieldSec LT.NumEval Gen.NumFuncsGen.
'''
QTAC = '''Open Scope Q_scope.
Ltac disc_prep := repeat match goal with
  | H : ~ (_ \\/ _) |- _ => apply Decidable.not_or in H; destruct H
  | H : ~ False |- _ => clear H
  end.
'''
KSEC = '''Section S.
Variable K : fld.
Variable sn : K -> K.
Variable pi : K.
Variable int_of : K -> option Z.
Add Field KFs : (fth K).
Local Open Scope F_scope.
Ltac k_step := match goal with |- context [keqb K ?a ?b] => destruct (keqb_spec K a b) end; cbn [orb andb negb]; cbv beta iota.
Ltac sn_norm := repeat match goal with |- context [sn ?a] => match goal with |- context [sn ?b] =>
   first [constr_eq a b; fail 1 | replace (sn a) with (sn b) by (f_equal; ring)] end end.
Ltac k_solve := intros; repeat k_step; cbn [kz kpos k_iseven k_isodd k_isint] in *; sn_norm;
   solve [reflexivity | congruence | (field; auto) | (exfalso; auto) ].
'''


def q_theorem(name, stmt, prep=''):
    return ('Theorem %s : %s.\nProof. unfold disc1; cbn [t_fn t_trap t_heav2 t_step2 sym_tab num_tab]; gen_unfold.\n'
            '  intros. disc_prep. %s pw_solve. Qed.\nPrint Assumptions %s.\n' % (name, stmt, prep, name))


def theorem_files(em):
    """{filename: (text, function key that explains a failure, [theorem names], {name: statement})}"""
    files = {}

    def add(fn, key, thms, body):
        files[fn] = {'text': body, 'key': key, 'names': [t[0] for t in thms], 'stmts': dict(thms)}
    for cons, key in TF.FN1:
        st = 'forall x, ~ disc1 %s x -> oeq2 (t_fn sym_tab %s x) (t_fn num_tab %s x)' % (cons, cons, cons)
        nm = 'num_eq_sym_' + key
        add('C17_f_%s.v' % key, key, [(nm, st)], HDR + QTAC + q_theorem(nm, st))
    st = 'forall x al, ~ disc_trap x al -> oeq2 (t_trap sym_tab x al) (t_trap num_tab x al)'
    prep = ('match goal with H : ~ disc_trap ?x ?al |- _ => unfold disc_trap in H;\n'
            '    assert (0 <= al) by (destruct (Qlt_le_dec al 0); [exfalso; apply H; left; assumption | assumption]);\n'
            '    assert (al == 0 -> ~ x == 1#2 /\\ ~ x == -(1#2)) by (intros ?; split; intros ?; apply H; right; split; auto);\n'
            '    clear H end.')
    add('C17_f_trap.v', 'trap', [('num_eq_sym_trap', st)], HDR + QTAC + q_theorem('num_eq_sym_trap', st, prep))
    st = 'forall x h0, ~ x == 0 -> oeq2 (t_heav2 sym_tab x h0) (t_heav2 num_tab x h0)'
    add('C17_f_heav2.v', 'heav2', [('num_eq_sym_Heaviside2', st)], HDR + QTAC + q_theorem('num_eq_sym_Heaviside2', st))
    st = 'forall x z0, oeq2 (t_step2 sym_tab x z0) (t_step2 num_tab x z0)'
    add('C17_f_step2.v', 'step2', [('num_eq_sym_UnitStep2', st)], HDR + QTAC + q_theorem('num_eq_sym_UnitStep2', st))
    # the two symbolic definitions (rewrite body, eval body) of a function agree
    RW = {'rect': ('forall x, ~ x == 1#2 -> ~ x == -(1#2) -> oeq2 (%s) (%s)', ['x']),
          'dtrect': ('forall x, oeq2 (%s) (%s)', ['x']), 'tri': ('forall x, oeq2 (%s) (%s)', ['x']),
          'ramp': ('forall x, oeq2 (%s) (%s)', ['x']), 'rampstep': ('forall x, oeq2 (%s) (%s)', ['x'])}

    def wrap(nm, args):
        f = em.funs[nm]
        t = '%s %s' % (nm, ' '.join(args))
        return t if f['rtype'] == 'OQ' else 'Some (%s)' % t
    for cl, (tmpl, args) in RW.items():
        if 'rw_' + cl not in em.funs or em.funs['rw_' + cl]['domain'] != 'Q':
            continue
        st = tmpl % (wrap('rw_' + cl, args), wrap('sym_' + cl, args))
        nm = 'rw_eq_eval_' + cl
        add('C17_rw_%s.v' % cl, cl, [(nm, st)], HDR + QTAC + q_theorem(nm, st))
    if 'rw_trap' in em.funs and em.funs['rw_trap']['domain'] == 'Q':
        thms = []
        body = HDR + QTAC
        for tag, al, hyp in (('0', '0', '~ x == 1#2 -> ~ x == -(1#2) -> '), ('1', '1', ''), ('half', '(1#2)', ''), ('quarter', '(1#4)', '')):
            st = 'forall x, %soeq2 (%s) (%s)' % (hyp, wrap('rw_trap', ['x', al]), wrap('sym_trap', ['x', al]))
            nm = 'rw_eq_eval_trap_' + tag
            thms.append((nm, st))
            body += q_theorem(nm, st)
        add('C17_rw_trap.v', ('trap', 'rampstep'), thms, body)
    # sinc family over an abstract field
    kf = {}
    kf['sincn'] = [('num_eq_sym_sincn', 'forall x, sym_sincn K sn pi int_of x = num_sincn K sn pi int_of x', 'gen_unfold. k_solve.'),
                   ('rw_eq_eval_sincn', 'forall x, x <> 0 -> rw_sincn K sn pi int_of x = sym_sincn K sn pi int_of x', 'gen_unfold. k_solve.')]
    kf['sincu'] = [('num_eq_sym_sincu', 'forall x, sym_sincu K sn pi int_of x = num_sincu K sn pi int_of x', 'gen_unfold. k_solve.'),
                   ('rw_eq_eval_sincu', 'forall x, x <> 0 -> rw_sincu K sn pi int_of x = sym_sincu K sn pi int_of x', 'gen_unfold. k_solve.')]
    # lambdify prints sympy's sinc(x) as sinc(x/pi) (contract checked on every run against the real printer)
    kf['sinc'] = [('num_eq_sym_sinc', 'pi <> 0 -> forall x, spec_sinc K sn x = num_sinc K sn pi int_of (x / pi)',
                   'gen_unfold. intros Hpi x. replace (x / pi * pi) with x by (field; exact Hpi). k_solve.')]
    kf['psinc'] = [('num_eq_sym_psinc_generic',
                    'forall M x, x <> 0 -> int_of x = None -> sn (pi * x) <> 0 -> sym_psinc K sn pi int_of M x = num_psinc K sn pi int_of M x',
                    'gen_unfold. intros M x Hx Hi Hs. rewrite ?Hi. k_solve.'),
                   ('num_eq_sym_psinc_zero',
                    'forall M, int_of 0 = Some 0%Z -> int_of (0 * (M - 1)) = Some 0%Z -> sn (pi * 0) = 0 -> '
                    'sym_psinc K sn pi int_of M 0 = num_psinc K sn pi int_of M 0',
                    'gen_unfold. intros M Hi Hp Hs. cbn [kz kpos] in *. rewrite ?Hi, ?Hp, ?Hs. k_solve.'),
                   ('rw_eq_eval_psinc',
                    'forall M x, x <> 0 -> int_of x = None -> rw_psinc K sn pi int_of M x = sym_psinc K sn pi int_of M x',
                    'gen_unfold. intros M x Hx Hi. rewrite ?Hi. k_solve.')]
    # at an integer x = k (M = m integer) the symbolic value must be the continuous extension (-1)^(k (m-1))
    kf['psinc_int'] = [('sym_psinc_int',
                        'forall M x m k, int_of M = Some m -> int_of x = Some k -> (x = 0 -> k = 0%Z) -> '
                        'sym_psinc K sn pi int_of M x = psinc_int_spec K m k',
                        'gen_unfold. intros M x m k HM Hx H0. rewrite ?HM, ?Hx. cbn [k_iseven k_isodd k_isint].\n'
                        '  rewrite ?Z.even_mul, ?Z.even_sub, <- ?Z.negb_even. change (Z.even 1) with false.\n'
                        '  destruct (Z.even k) eqn:Ek; destruct (Z.even m) eqn:Em; cbn [negb orb andb xorb eqb Bool.eqb];\n'
                        '  repeat k_step; cbn [kz kpos] in *; try reflexivity;\n'
                        '  exfalso; match goal with E : x = _ |- _ => specialize (H0 E); subst k; discriminate end.')]
    # ... and so must the numeric value (exact arithmetic: sin(pi x) = 0 at an integer x)
    kf['psinc_num_int'] = [('num_psinc_int',
                            'forall M x m k, int_of M = Some m -> int_of x = Some k -> int_of (x * (M - 1)) = Some (k * (m - 1))%Z -> '
                            'sn (pi * x) = 0 -> num_psinc K sn pi int_of M x = psinc_int_spec K m k',
                            'gen_unfold. intros M x m k HM Hx Hp Hs. cbn [kz kpos] in *. rewrite ?HM, ?Hx, ?Hp, ?Hs. cbn [k_iseven k_isodd k_isint].\n'
                            '  destruct (Z.even (k * (m - 1))); k_solve.')]
    for key, thms in kf.items():
        body = HDR + KSEC
        for nm, st, pr in thms:
            body += 'Theorem %s : %s.\nProof. %s Qed.\n' % (nm, st, pr)
        body += 'End S.\n' + ''.join('Print Assumptions %s.\n' % nm for nm, _, _ in thms)
        add('C17_k_%s.v' % key, 'psinc' if key.startswith('psinc') else key, [(nm, st) for nm, st, _ in thms], body)
    return files


def expr_file(ok_keys, causal_funs):
    """expression-level theorem over the functions whose num_eq_sym theorem was accepted"""
    imps = ''.join('Require Import Gen.C17_f_%s.\n' % k for k in ok_keys)
    okf = '\n'.join('  | %s => %s' % (cons, 'true' if key in ok_keys else 'false') for cons, key in TF.FN1)
    b = lambda k: 'true' if k in ok_keys else 'false'
    glue = []
    for cons, key in TF.FN1:
        glue.append('  + %s' % ('apply num_eq_sym_%s; assumption.' % key if key in ok_keys else 'discriminate.'))
    t = HDR + imps + QTAC + '''
Definition ok_fn (f : fn1) : bool := match f with
%s
  end.
(* For every expression e built from the variable, rational constants, + - * / unary - abs, the accepted
   function symbols and Piecewise clauses, and every rational point x at which no function argument is a
   discontinuity of that function: the numeric evaluation of e at x equals exact substitution. *)
Theorem evaluate_agrees_with_subs : forall e x,
  uses_only ok_fn %s %s %s e = true -> no_disc sym_tab e x -> eval num_tab e x = eval sym_tab e x.
Proof.
  apply eval_agree.
  - intros f v Hok Hd. destruct f; cbn [ok_fn] in Hok.
  %s
  - intros Hok v al Hd. %s
  - intros Hok v h0 Hd. %s
  - intros Hok v z0. %s
Qed.
Print Assumptions evaluate_agrees_with_subs.
''' % (okf, b('trap'), b('heav2'), b('step2'), '\n  '.join(glue),
       'apply num_eq_sym_trap; assumption.' if 'trap' in ok_keys else 'discriminate.',
       'apply num_eq_sym_Heaviside2; assumption.' if 'heav2' in ok_keys else 'discriminate.',
       'apply num_eq_sym_UnitStep2.' if 'step2' in ok_keys else 'discriminate.')
    # CausalChecker: each accepted factor function vanishes at the negative arguments causal_arg guarantees
    thms = ['evaluate_agrees_with_subs']
    for fn in causal_funs:
        cons = FN1[fn]
        nm = 'causal_factor_vanishes_' + fn
        t += ('Theorem %s : forall a b t, causal_arg a b = true -> t < 0 -> oeq2 (t_fn sym_tab %s (a * t + b)) (Some 0).\n'
              'Proof. intros a b t H Ht. pose proof (causal_arg_sound_local a b t H Ht) as Hn. revert Hn. generalize (a * t + b). clear.\n'
              '  cbn [t_fn sym_tab]; gen_unfold. pw_solve. Qed.\nPrint Assumptions %s.\n' % (nm, cons, nm))
        thms.append(nm)
    pre = '''Lemma causal_arg_sound_local : forall a b t, causal_arg a b = true -> t < 0 -> a * t + b < 0.
Proof. gen_unfold. intros a b t H Ht.
  destruct (qlt_spec (Qmake 0 1) a); cbn [andb] in H; [|discriminate].
  assert (Hb : b <= 0).
  { destruct (qlt_spec b (Qmake 0 1)); [lra|]. destruct (qeq_spec b (Qmake 0 1)); [lra | discriminate]. }
  assert (a * t < 0); [|lra].
  setoid_replace (a * t) with (- (a * - t)) by ring.
  assert (0 < a * - t); [|lra]. apply Qmult_lt_0_compat; lra. Qed.
'''
    t = t.replace('\nDefinition ok_fn', '\n' + pre + '\nDefinition ok_fn', 1)
    return t, thms


# ---- correspondence files ---------------------------------------------------------
def qcl(s):
    x = F(s)
    return '(qc (%d) %d)' % (x.numerator, x.denominator)


def ex_coq(tr):
    k = tr[0]
    if k == 'var':
        return 'EVar'
    if k == 'c':
        return '(EC %s)' % qcl(tr[1])
    if k in ('add', 'sub', 'mul', 'div'):
        return '(E%s %s %s)' % (k.capitalize(), ex_coq(tr[1]), ex_coq(tr[2]))
    if k == 'neg':
        return '(ENeg %s)' % ex_coq(tr[1])
    if k == 'abs':
        return '(EAbsv %s)' % ex_coq(tr[1])
    if k == 'f':
        return '(EF %s %s)' % (FN1[tr[1]], ex_coq(tr[2]))
    if k == 'trap':
        return '(ETrap %s %s)' % (ex_coq(tr[1]), qcl(tr[2]))
    if k == 'heav2':
        return '(EHeav2 %s %s)' % (ex_coq(tr[1]), qcl(tr[2]))
    if k == 'step2':
        return '(EStep2 %s %s)' % (ex_coq(tr[1]), qcl(tr[2]))
    if k == 'pw':
        return '(EPw O%s %s %s %s %s)' % (tr[1].capitalize(), ex_coq(tr[2]), ex_coq(tr[3]), ex_coq(tr[4]), ex_coq(tr[5]))
    if k == 'undef':
        return 'EUndef'
    raise ValueError(k)


CASES_HDR = '''From Coq Require Import QArith Qabs Qcanon Bool List ZArith.
Require Import LT.FieldSec LT.NumEval Gen.NumFuncsGen.
Import ListNotations.
Definition oqeq (a b : option Qc) : bool :=
  match a, b with Some x, Some y => qc_eqb x y | None, None => true | _, _ => false end.
Fixpoint lqeq (a b : list Qc) : bool :=
  match a, b with [] , [] => true | x :: r, y :: s => qc_eqb x y && lqeq r s | _, _ => false end.
Definition outeq (a b : outv) : bool :=
  match a, b with
  | OScalar x, OScalar y => qc_eqb x y | OVector xs, OVector ys => lqeq xs ys | ORaise, ORaise => true | _, _ => false end.
(* tolerance verdict on the exact value of a float: |model - float| <= 1e-9 (1 + |model|), in exact arithmetic *)
Definition close (m o : Qc) : bool := Qle_bool (Qabs.Qabs (m - o)%Qc) ((1 # 1000000000) * (1 + Qabs.Qabs m))%Q.
Definition oclose (a b : option Qc) : bool :=
  match a, b with Some x, Some y => close x y | None, None => true | _, _ => false end.
Fixpoint lqclose (a b : list Qc) : bool :=
  match a, b with [] , [] => true | x :: r, y :: s => close x y && lqclose r s | _, _ => false end.
Definition outclose (a b : outv) : bool :=
  match a, b with
  | OScalar x, OScalar y => close x y | OVector xs, OVector ys => lqclose xs ys | ORaise, ORaise => true | _, _ => false end.
Definition nrun := run num_tab causal_guard causal_value evaluate_expr_prog.
Definition failing (l : list (nat * bool)) : list nat := map fst (filter (fun p => negb (snd p)) l).
'''


def cases_file(items):
    """items: list of (id, 'sym'|'num'|'vec', coq boolean text)"""
    out = [CASES_HDR]
    for kind in ('sym', 'num', 'vec'):
        out.append('Definition %scases : list (nat * bool) := [\n%s].' % (
            kind, ';\n'.join('(%d%%nat, %s)' % (i, t) for i, k, t in items if k == kind)))
    out.append('Eval vm_compute in (failing symcases).\nEval vm_compute in (failing numcases).\nEval vm_compute in (failing veccases).\n')
    return '\n'.join(out)


def parse_lists(out):
    res = []
    for m in re.finditer(r'=\s*\[(.*?)\]\s*:\s*list nat', out, re.S):
        body = m.group(1).strip()
        res.append([int(x.replace('%nat', '').strip()) for x in body.split(';')] if body else [])
    return res


# ---------------------------------------------------------------------------
# float search oracle (transcendental class): templates in Lcapy syntax
def text_cases(rng, tier):
    cs = []

    def add(text, pts, fkey, dom='t', discs=(), mode='scalar', apps=(), **kw):
        c = {'kind': 'text', 'text': text, 'points': [p if isinstance(p, str) else fstr(p) for p in pts], 'fkey': fkey,
             'dom': dom, 'discs': [[fstr(a), fstr(b), [fstr(d) for d in ds]] for a, b, ds in discs], 'mode': mode,
             'apps': [[n_, fstr(a), fstr(b)] for n_, a, b in apps]}
        c.update(kw)
        cs.append(c)
    R = [F(-5, 2), F(-1), F(-1, 3), F(0), F(1, 64), F(1, 3), HALF, F(1), F(5, 2), F(3), F(7)]
    for v in ('t', 'f', 'omega'):
        add('sinc(%s)' % v, R, 'sinc', v)
        add('sincn(%s)' % v, R, 'sincn', v)
        add('sincu(%s)' % v, R, 'sincu', v)
    for M in (2, 3, 4, 5):
        add('psinc(%d, t)' % M, [F(-2), F(-1), F(-1, 3), F(0), F(1, 4), HALF, F(1), F(2), F(3), F(5, 2)], 'psinc', 't', M=M)
    add('psinc(3, n)', [F(-2), F(-1), F(0), F(1), F(2), F(5)], 'psinc', 'n', M=3)
    a = rng.choice([1, 2, 3])
    b = rng.choice([1, 2, 5])
    big = [F(40), F(-40), F(300), F(-300), F(600), F(-600), F(650)]
    add('exp(-%d*t)*Heaviside(t)' % a, R + big, 'exp*H', 't', discs=[(F(1), F(0), [F(0)])])
    add('exp(t)', [F(-700), F(-20), F(0), F(20), F(499), F(501), F(600), F(700)], 'exp', 't', a=1)
    add('exp(-%d*t)*cos(%d*t)*u(t)' % (a, b), R + [F(40)], 'exp*cos', 't', discs=[(F(1), F(0), [F(0)])])
    add('exp(-t**2/%d)' % b, R + [F(20), F(-20)], 'gauss', 't')
    add('sin(%d*t + 1/3)/(t**2 + %d)' % (a, b), R + [F(1000)], 'sin/poly', 't')
    add('cosh(t/4) - sinh(t/3)', R + [F(40)], 'hyp', 't')
    add('sqrt(t**2 + %d)*sign(t - 1)' % b, R + [F(1000)], 'sqrt*sign', 't', discs=[(F(1), F(-1), [F(0)])])
    add('besselj(0, %d*t)' % a, [F(0), HALF, F(1), F(5, 2), F(10), F(-3)], 'besselj', 't')
    add('besselj(1, t) + besseli(0, t/2)', [F(0), HALF, F(1), F(5, 2), F(-3)], 'bessel', 't')
    add('rect(t/%d)*cos(t)' % b, R, 'rect*cos', 't', discs=[(F(1, b), F(0), [HALF, -HALF])])
    add('tri(t - 1)*exp(t)', R, 'tri*exp', 't', apps=[('tri', F(1), F(-1))])
    add('trap(t, 1/2)*sin(t)', R + [F(5, 8), F(-5, 8)], 'trap*sin', 't')
    add('ramp(t - 1)*exp(-t) + rampstep(2*t)', R + [F(1, 4), F(40)], 'ramp', 't', apps=[('ramp', F(1), F(-1)), ('rampstep', F(2), F(0))])
    add('Piecewise((exp(-%d*t), t >= 0))' % a, [F(0), HALF, F(3), F(-1, 64), F(-2)], 'pw_ge', 't', pw_ge=fstr(0))
    add('Piecewise((exp(-%d*t), t >= 0))' % a, [HALF, F(3), F(-2), F(1)], 'pw_ge', 't', pw_ge=fstr(0), mode='list')
    add('Piecewise((sin(t), t < 1), (cos(t), t >= 1))', R, 'pw2', 't', discs=[(F(1), F(-1), [F(0)])])
    add('delta(t - 1) + exp(-t)', R, 'delta', 't', discs=[(F(1), F(-1), [F(0)])])
    # frequency responses / transform domains, real and complex points
    cp = ['0', '1/2', '-3', '1/2,1', '-3,2', '0,5', '-1/4,-7/2', '1000', '0,1000']
    add('(s + %d)/(s**2 + %d*s + %d)' % (a, a + 1, b + 4), cp, 'ratfun_s', 's', complex=True)
    add('exp(-s/2)/(s + %d)' % a, cp, 'delay_s', 's', complex=True)
    add('%d/(j*omega + %d)' % (b, a), R + [F(1000), F(-1000)], 'jomega', 'omega', complex=True)
    add('1/(j*2*pi*f*%d + 1)' % a, R + [F(1000)], 'jf', 'f', complex=True)
    add('sincn(f)*exp(-j*pi*f)', R, 'sincn*exp', 'f', complex=True)
    add('z/(z - 1/%d)' % (a + 1), ['2', '-3', '1/2,1', '0,1', '-3,2', '1000'], 'ratfun_z', 'z', complex=True)
    add('(z**2 + 1)/(z**2 - z/2 + 1/4)', ['2', '-3', '1/2,1', '0,1', '-3,2'], 'ratfun_z2', 'z', complex=True)
    NI = [F(-5), F(-1), F(0), F(1), F(2), F(7), F(40)]
    add('(1/%d)**n*u(n)' % (a + 1), NI, 'geom', 'n', discs=[])
    add('n*(-1/2)**n*u(n)', NI, 'ngeom', 'n')
    add('cos(pi*n/%d)*u(n - 1)' % (b + 1), NI, 'cos_n', 'n')
    add('delta(n - 2) + 3*delta(n)', NI, 'ui', 'n')
    add('sign(n)*exp(-abs(n)/3)', NI, 'dtsign*exp', 'n', apps=[('dtsign', F(1), F(0))])
    add('rect(n/4)', NI + [F(2), F(-2)], 'dtrect', 'n', apps=[('dtrect', F(1, 4), F(0))])
    add('exp(-j*2*pi*k/8)', [F(0), F(1), F(3), F(7), F(-2)], 'dft', 'k', complex=True)
    # vector forms of some of the above
    for c in list(cs):
        if c['fkey'] in ('exp*cos', 'sin/poly', 'ratfun_s', 'geom', 'tri*exp', 'jomega') or (tier != 'quick' and c['mode'] == 'scalar' and 'pw_ge' not in c):
            d = dict(c)
            d['mode'] = rng.choice(['list', 'array'])
            d['pair'] = True
            cs.append(d)
    return cs


def text_class(c, p):
    """class of a point of a text case, for the finding key"""
    fk = c['fkey']
    x = F(p.split(',')[0]) if ',' not in p else None
    if fk == 'sinc':
        return 'nonzero' if x != 0 else 'at0'
    if fk == 'psinc':
        if x is not None and x.denominator == 1:
            return '%s-x,%s-M' % ('odd' if x.numerator % 2 else 'even', 'odd' if c['M'] % 2 else 'even')
        return 'nonint'
    if fk == 'exp':
        return 'arg-above-500' if x is not None and x > 500 else 'arg-upto-500'
    if x is None:
        return 'complex'
    return 'at0' if x == 0 else ('neg' if x < 0 else 'pos')


def at_disc(c, p):
    if ',' in p:
        return False
    x = F(p)
    return any(F(a) * x + F(b) in [F(d) for d in ds] for a, b, ds in c['discs'])


def sim_cases(rng, tier):
    Rv = rng.choice(['1/2', '1', '2'])
    Cv = rng.choice(['1/4', '1/2'])
    Lv = rng.choice(['1/4', '1/2'])
    Ns = (101, 401) if tier == 'quick' else (201, 801)
    cs = []
    for integ in ('trapezoid', 'backward-euler'):
        for N in Ns:
            cs.append({'kind': 'sim', 'net': ['V1 1 0 step 2', 'R1 1 2 %s' % float(F(Rv)), 'C1 2 0 %s' % float(F(Cv))], 'T': '1', 'N': N,
                       'integrator': integ, 'probe': ['C1.v'], 'ref': ['rc', Rv, Cv], 'id': 'RC:' + integ, 'timeout': 600})
            cs.append({'kind': 'sim', 'net': ['V1 1 0 step 2', 'R1 1 2 %s' % float(F(Rv)), 'L1 2 0 %s' % float(F(Lv))], 'T': '1', 'N': N,
                       'integrator': integ, 'probe': ['L1.i'], 'ref': ['rl', Rv, Lv], 'id': 'RL:' + integ, 'timeout': 600})
            cs.append({'kind': 'sim', 'net': ['V1 1 0 step 1', 'R1 1 2 1', 'L1 2 3 0.5', 'C1 3 0 0.25'], 'T': '4', 'N': 4 * (N - 1) + 1,
                       'integrator': integ, 'probe': ['C1.v'], 'ref': ['rlc'], 'id': 'RLC:' + integ, 'timeout': 900})
        # non-uniform increasing time vectors: the companion conductances change from step to step
        NU = (65, 257) if tier == 'quick' else (129, 513)
        for grid in ('quadratic', 'two-rate'):
            for N in NU:
                cs.append({'kind': 'sim', 'net': ['V1 1 0 step 2', 'R1 1 2 %s' % float(F(Rv)), 'C1 2 0 %s' % float(F(Cv))], 'T': '4', 'N': N, 'grid': grid,
                           'integrator': integ, 'probe': ['C1.v'], 'ref': ['rc', Rv, Cv], 'id': 'RC:%s:%s' % (integ, grid), 'timeout': 600, 'symbolic': N == NU[0]})
                cs.append({'kind': 'sim', 'net': ['V1 1 0 step 2', 'R1 1 2 %s' % float(F(Rv)), 'L1 2 0 %s' % float(F(Lv))], 'T': '4', 'N': N, 'grid': grid,
                           'integrator': integ, 'probe': ['L1.i'], 'ref': ['rl', Rv, Lv], 'id': 'RL:%s:%s' % (integ, grid), 'timeout': 600, 'symbolic': N == NU[0]})
            if grid == 'quadratic' or tier != 'quick':
                for N in NU:
                    cs.append({'kind': 'sim', 'net': ['V1 1 0 step 1', 'R1 1 2 1', 'L1 2 3 0.5', 'C1 3 0 0.25'], 'T': '4', 'N': 2 * (N - 1) + 1, 'grid': grid,
                               'integrator': integ, 'probe': ['C1.v'], 'ref': ['rlc'], 'id': 'RLC:%s:%s' % (integ, grid), 'timeout': 900})
        # short runs compared step by step with the exact companion recursion of the model (dt_k per step)
        for grid, N in (('uniform', 17), ('quadratic', 33), ('two-rate', 17)):
            cs.append({'kind': 'sim', 'net': ['V1 1 0 step 2', 'R1 1 2 %s' % float(F(Rv)), 'C1 2 0 %s' % float(F(Cv))], 'T': '4', 'N': N, 'grid': grid,
                       'integrator': integ, 'probe': ['C1.v', 'C1.i'], 'rec': ['C', Rv, Cv, '2'], 'id': 'rec:RC:%s:%s' % (integ, grid), 'timeout': 300})
            cs.append({'kind': 'sim', 'net': ['V1 1 0 step 2', 'R1 1 2 %s' % float(F(Rv)), 'L1 2 0 %s' % float(F(Lv))], 'T': '4', 'N': N, 'grid': grid,
                       'integrator': integ, 'probe': ['L1.v', 'L1.i'], 'rec': ['L', Rv, Lv, '2'], 'id': 'rec:RL:%s:%s' % (integ, grid), 'timeout': 300})
    return cs


SIMRES_NETS = {
    'CparL': ['V1 1 0 step 2', 'R1 1 2 1', 'C1 2 0 0.5', 'L1 2 0 0.25'],
    'ladder2C': ['V1 1 0 step 1', 'R1 1 2 1', 'C1 2 0 0.5', 'R2 2 3 2', 'C2 3 0 0.25'],
    'seriesRLC': ['V1 1 0 step 1', 'R1 1 2 1', 'L1 2 3 0.5', 'C1 3 0 0.25'],
    'floatC': ['V1 1 0 step 2', 'R1 1 2 1', 'C1 2 3 0.5', 'R2 3 0 2', 'L1 2 0 1'],
    'ramp2L': ['V1 1 0 {2*t*u(t)}', 'L1 1 2 0.5', 'R1 2 0 1', 'L2 2 3 0.25', 'R2 3 0 3'],
}


def simres_cases(rng, tier):
    """arbitrary circuits: every step of the real run is re-checked against the stamped system of the model"""
    cs = []
    names = sorted(SIMRES_NETS)
    if tier == 'quick':
        names = rng.sample(names, 3)
    for nm in names:
        for integ in ('trapezoid', 'backward-euler'):
            for grid, N in (('uniform', 9), ('quadratic', 13), ('two-rate', 9)):
                cs.append({'kind': 'simres', 'net': SIMRES_NETS[nm], 'T': '4', 'N': N, 'grid': grid, 'integrator': integ,
                           'id': '%s:%s:%s' % (nm, integ, grid), 'timeout': 120})
    return cs


SIMRES_HDR = '''From Coq Require Import Qabs.
Definition vget (l : list Qc) (i : Z) : Qc := if Z.ltb i 0 then 0%Qc else nth (Z.to_nat i) l 0%Qc.
Definition mget (rows : list (list Qc)) (r q : Z) : Qc := vget (nth (Z.to_nat r) rows []) q.
Record cdesc := MkC { cg : Qc -> Qc; cv : Qc -> Qc -> Qc -> Qc -> Qc; c1 : Z; c2 : Z; c3 : Z; cb : Z }.
(* the components of step k: conductance and history source from the TRANSLATED formulas with the step size of this step
   and the state of the previous step *)
Definition comps (nn : Z) (cs : list cdesc) (dt : Qc) (xp : list Qc) : list (rcomp QcF) :=
  map (fun c => MkRcomp (K:=QcF) (cg c dt) (cv c dt (vget xp (c1 c)) (vget xp (c2 c)) (vget xp (nn + cb c)%Z))
                        (c1 c) (c3 c) (nn + cb c)%Z) cs.
Definition qabs (a : Qc) : Qc := Q2Qc (Qabs a).
Definition row_ok (idx : list Z) (M : Z -> Z -> Qc) (Zr : Z -> Qc) (x : Z -> Qc) (r : Z) : bool :=
  let lhs := rowdot (K:=QcF) idx M x r in
  let sc := lsum (K:=QcF) idx (fun q => qabs (M r q * x q)%Qc) in
  Qle_bool (Qabs (lhs - Zr r)%Qc) ((1 # 10000000) * (1 + sc + Qabs (Zr r)))%Q.
Fixpoint run_ok (idx : list Z) (rows : list (list Qc)) (nn : Z) (cs : list cdesc)
                (steps : list (Qc * list Qc * list Qc)) (xp : list Qc) : bool :=
  match steps with
  | [] => true
  | (dt, zl, xl) :: t =>
      let cps := comps nn cs dt xp in
      forallb (row_ok idx (stamped (K:=QcF) (mget rows) stamp_A cps) (zstamped (K:=QcF) (vget zl) cps) (vget xl)) idx
      && run_ok idx rows nn cs t xl
  end.
'''


def sim_ref(ref, tv):
    if ref[0] == 'rc':
        tau = float(F(ref[1]) * F(ref[2]))
        return [2 * (1 - math.exp(-t / tau)) for t in tv]
    if ref[0] == 'rl':
        R, L = float(F(ref[1])), float(F(ref[2]))
        return [2 / R * (1 - math.exp(-t * R / L)) for t in tv]
    wd = math.sqrt(7.0)
    return [1 - math.exp(-t) * (math.cos(wd * t) + math.sin(wd * t) / wd) for t in tv]


RESP_H = [('1/(s + 1)', lambda t: 1 - math.exp(-t)),
          ('2/(s + 3)', lambda t: 2.0 / 3 * (1 - math.exp(-3 * t))),
          ('(s + 3)/(s**2 + 3*s + 2)', lambda t: 2 * (1 - math.exp(-t)) - 0.5 * (1 - math.exp(-2 * t))),
          # improper: s + 2 + 1/(s + 1); response to x = t^2 (quotient terms act on x and x')
          ('(s**2 + 3*s + 3)/(s + 1)', lambda t: 2 * t + 2 * t * t + (t * t - 2 * t + 2 - 2 * math.exp(-t)))]


def response_cases(rng, tier):
    cs = []
    hi = rng.randrange(3)
    for wrap in (None, 'transfer'):
        for method in ('bilinear', 'impulse-invariance', 'backward-euler', 'forward-euler'):
            if tier == 'quick' and wrap == 'transfer' and method in ('forward-euler',):
                continue
            for N in (101, 401):
                cs.append({'kind': 'response', 'H': RESP_H[hi][0], 'hi': hi, 'method': method, 'T': '4', 'N': N, 'input': 'step',
                           'wrap': wrap, 'id': 'response:%s:%s' % (wrap or 'expr', method)})
    for N in (101, 401):
        cs.append({'kind': 'response', 'H': RESP_H[3][0], 'hi': 3, 'method': 'impulse-invariance', 'T': '2', 'N': N, 'input': 'quad',
                   'wrap': None, 'id': 'response:improper:impulse-invariance'})
    return cs


# strictly proper stable transfer functions as partial fractions  sum r/(s + p)  (closed-form responses below use only math.exp)
RESPW_H = [('1/(s + 1)', [(1.0, 1.0)]), ('2/(s + 3)', [(2.0, 3.0)]), ('(s + 3)/(s**2 + 3*s + 2)', [(2.0, 1.0), (-1.0, 2.0)])]
# windows (t0, t1): the samples start at t0, the input is switched on at t1 >= t0 (a sample instant of both grids)
RESPW_WIN = {'at0': [('0', '0'), ('0', '1')], 'before0': [('-1', '0'), ('-1', '-1'), ('-2', '-1/2')], 'after0': [('2', '2'), ('2', '5/2'), ('1/2', '1/2')]}
RESPW_METHODS = ['bilinear', 'tustin', 'trapezoidal', 'gbf', 'generalized-bilinear', 'backward-euler', 'backward-diff',
                 'forward-euler', 'forward-diff', 'euler', 'impulse-invariance', 'adhoc']
RESPW_B = '1/2'       # decay rate of the exponential input (not a pole of any RESPW_H)


def respw_ref(pf, inp, tau):
    """exact response at time tau after the (delayed) onset of the input"""
    if tau <= 0:
        return 0.0
    if inp == 'step':
        return sum(r / p * (1 - math.exp(-p * tau)) for r, p in pf)
    b = float(F(RESPW_B))
    return sum(r * (math.exp(-b * tau) - math.exp(-p * tau)) / (p - b) for r, p in pf)


def respw_text(hi, delay):
    h = RESPW_H[hi][0]
    d = F(delay)
    if d == 0:
        return h
    return 'exp(-%s*s)*(%s)' % ('(%d/%d)' % (d.numerator, d.denominator) if d.denominator != 1 else str(d.numerator), h)


def response_window_cases(rng, tier):
    """response() on time windows that start at, before and after t = 0, with and without a delay factor, for every
    discretisation method.  Step sizes are dyadic (T = 4, N - 1 a power of two) so that the time vectors are exact and the
    delays 1/2, 1, 1/4 are whole numbers of steps (a fractional delay makes the bilinear family fall back on a Pade
    approximation of exp, whose error does not depend on the step); impulse-invariance additionally gets a delay that
    is NOT a multiple of the step (linear interpolation between samples)."""
    cs = []
    Ns = (129, 513)

    def add(hi, method, win, t0, t1, delay, inp, wrap, **kw):
        for N in Ns:
            c = {'kind': 'response', 'H': respw_text(hi, delay), 'hw': hi, 'method': method, 'T': '4', 'N': N, 't0': t0, 't1': t1,
                 'delay': delay, 'input': inp, 'b': RESPW_B, 'wrap': wrap,
                 'id': 'response:window-%s:%s:%s' % (win, 'delay' if F(delay) != 0 else 'nodelay', method)}
            c.update(kw)
            c['gid'] = '%s#%d' % (c['id'], len(cs) // 2)
            cs.append(c)
    # always: both names of the impulse-invariance method, delayed, on windows before and after 0 (and at 0)
    for method in ('impulse-invariance', 'adhoc'):
        for win in ('before0', 'after0', 'at0'):
            t0, t1 = rng.choice(RESPW_WIN[win])
            add(rng.randrange(3), method, win, t0, t1, rng.choice(['1/2', '1', '1/4', '1/3']), rng.choice(['step', 'expstep']),
                rng.choice([None, 'transfer']), interp=True)
            if win != 'at0':
                t0, t1 = rng.choice(RESPW_WIN[win])
                add(rng.randrange(3), method, win, t0, t1, '0', rng.choice(['step', 'expstep']), rng.choice([None, 'transfer']), interp=True)
    # every other method name: each of the three kinds of window, with and without delay
    others = [m for m in RESPW_METHODS if m not in ('impulse-invariance', 'adhoc')]
    if tier == 'quick':
        others = ['bilinear', 'backward-euler', 'forward-euler', 'gbf'] + rng.sample([m for m in others if m not in ('bilinear', 'backward-euler', 'forward-euler', 'gbf')], 2)
    for method in others:
        for win in ('before0', 'after0', 'at0'):
            for delay in (rng.choice(['1/2', '1', '1/4']), '0'):
                if tier == 'quick' and win == 'at0' and delay == '0':
                    continue            # covered by response_cases
                t0, t1 = rng.choice(RESPW_WIN[win])
                kw = {'alpha': rng.choice(['1/2', '3/4', '1'])} if method in ('gbf', 'generalized-bilinear') else {}
                add(rng.randrange(3), method, win, t0, t1, delay, rng.choice(['step', 'expstep']), rng.choice([None, 'transfer']), **kw)
    if tier != 'quick':
        for method in ('impulse-invariance', 'adhoc'):
            for win in ('before0', 'after0', 'at0'):
                for t0, t1 in RESPW_WIN[win]:
                    for delay in ('1/2', '1/3', '0'):
                        add(rng.randrange(3), method, win, t0, t1, delay, rng.choice(['step', 'expstep']), rng.choice([None, 'transfer']), interp=True)
    return cs


def simstep_cases(rng, n):
    cs = []
    for cls in TS.CLASSES:
        for _ in range(n):
            r = lambda: fstr(F(rng.randint(-9, 9), rng.randint(1, 6)))
            nz = lambda: fstr(F(rng.randint(1, 9), rng.randint(1, 6)))
            cs.append({'kind': 'simstep', 'cls': cls, 'X': nz(), 'dt': nz(), 'v1p': r(), 'v2p': r(), 'ip': r()})
    return cs


SIM_REC_HDR = '''From Coq Require Import Qabs.
Definition close (m o : Qc) : bool := Qle_bool (Qabs (m - o)%Qc) ((1 # 1000000000) * (1 + Qabs m))%Q.
Fixpoint close_run (m o : list (Qc * Qc)) : bool :=
  match m, o with
  | [], [] => true
  | (a, b) :: r, (c, d) :: s => close a c && close b d && close_run r s
  | _, _ => false
  end.
'''
RESP_HDR = '''Fixpoint lclose (a b : list Qc) : bool :=
  match a, b with [], [] => true | x :: r, y :: s => close x y && lclose r s | _, _ => false end.
(* one recorded interpolation of a real run: abscissae xs, ordinates ys, query instants qs, result out;
   window start t0, step dt, delay dl, n samples *)
Definition resp_ok (t0 dt dl : Qc) (n : nat) (xs ys qs out : list Qc) : bool :=
  lclose (map (grid (K:=QcF) resp_ii_interp_base t0 dt) (seq 0 n)) xs
  && lclose (map (fun k => (grid (K:=QcF) resp_ii_query_base t0 dt k - dl)%Qc) (seq 0 n)) qs
  && lclose (map (lin_interp xs ys) qs) out.
'''
SIM_CASES_HDR = '''From Coq Require Import QArith Qabs Qcanon Bool List ZArith.
Require Import LT.FieldSec LT.NumEval LT.NumEvalSim Gen.NumSimGen.
Import ListNotations.
Definition sg (s : csign) (g : Qc) : Qc := match s with Plus => g | Minus => (- g)%Qc end.
Fixpoint entry (l : list (cnode * cnode * csign)) (g : Qc) (r c : cnode) : Qc :=
  match l with [] => 0%Qc | (r', c', s) :: t => ((if cnode_eqb r r' && cnode_eqb c c' then sg s g else 0) + entry t g r c)%Qc end.
Definition failing (l : list (nat * bool)) : list nat := map fst (filter (fun p => negb (snd p)) l).
'''


# ---------------------------------------------------------------------------
def expand_modes(cases):
    """'both' -> a scalar and an array run of the same expression (cross-checked element-wise)"""
    out = []
    for c in cases:
        if c.get('mode') == 'both':
            a = dict(c, mode='scalar')
            b = dict(c, mode='array')
            a['pair_with'] = len(out) + 1
            out += [a, b]
        else:
            out.append(c)
    return out


def observed(rj, which):
    """('val', Fraction) | ('none',) | ('skip', why)"""
    if which == 'sym':
        if 'sym' in rj:
            return ('val', F(rj['sym']))
        if 'sym_undef' in rj:
            return ('none',) if rj['sym_undef'] == 'nan' else ('skip', 'sym:' + rj['sym_undef'][:30])
        return ('skip', 'sym_inexact')
    if 'num' in rj:
        return ('val', F(rj['num']))
    if 'num_err' in rj:
        return ('none',)
    return ('skip', 'num_inexact')


def tree_hash(tr):
    return hashlib.sha256(json.dumps(tr).encode()).hexdigest()[:8]


def funcs_in(tr, acc=None):
    acc = [] if acc is None else acc
    if isinstance(tr, list):
        if tr and tr[0] == 'f':
            acc.append(tr[1])
        elif tr and tr[0] in ('trap', 'heav2', 'step2'):
            acc.append(tr[0])
        for x in tr[1:]:
            funcs_in(x, acc)
    return acc


def run(tier='quick', replay=None):
    res = core.Result(PID, tier)
    rng = random.Random(core.seed() * 7919 + 17)
    core.ensure_theory(['FieldSec', 'NumEval', 'NumEvalSim', 'NumEvalResp'])
    w = core.Work(PID)
    violations = []
    cex = []            # concrete property failures on the real code: dict(key, what, case, point, ...)
    known_open = set(k['key'] for k in core.load_known() if k.get('property') == PID and k.get('status') == 'open')
    try:
        res.trusted = [
            'Coq 8.16.1 kernel + vm_compute (no native_compute)',
            'translators tools/tr_numfuncs.py (sha256 %s), tools/tr_numsim.py (sha256 %s) + statement templates in checks/c17.py' % (
                core.sha256_file(os.path.join(core.VERIF, 'tools', 'tr_numfuncs.py'))[:16],
                core.sha256_file(os.path.join(core.VERIF, 'tools', 'tr_numsim.py'))[:16]),
            'specification coq/theory/NumEval.v: spec_Heaviside/spec_sign/spec_DiracDelta/spec_sinc (SymPy functions), disc1/disc_trap '
            '(excluded points), psinc_int_spec; coq/theory/NumEvalSim.v (companion orientation, conductance stamp)',
            'modelled, not verified: sympy lambdify printing (contract "sinc(x) is printed as sinc(x/pi)" re-read from the real printer on '
            'every run), numpy float arithmetic (exact for the dyadic inputs of the exact class; float -> rational by limit_denominator(10^6) '
            'with a 1e-12 closeness test), the limit()/simplify() fall-backs of evaluate, scipy Bessel functions, numpy.linalg.inv and '
            'scipy.signal.lfilter inside Simulator/response',
        ]
        res.assumptions = ['sinc family: arbitrary field of characteristic 0 with decidable equality, arbitrary function sn and constant pi '
                           '(so every statement holds for the real sine); psinc additionally an arbitrary integrality oracle int_of',
                           'exact class: rational points and rational coefficients; discontinuities of Heaviside/sign/DiracDelta (0), rect '
                           '(+-1/2), trap with alpha = 0 (+-1/2) are excluded as the property says',
                           'NOT covered (partial): floating-point rounding, convergence as h -> 0 for arbitrary circuits, Bessel functions']
        import time as _t
        T0 = _t.time()
        phase = {}
        texts = {}
        # ---- 1. translate ---------------------------------------------------------
        nf = em = ns = None
        try:
            nf = TF.NumFuncs(core.REPO)
            em = TF.Emit(nf)
            texts['NumFuncsGen.v'] = em.text() + '\n' + TF.tables_text(em)
        except TF.Untranslatable as e:
            res.failed_obl.append(('translate_numfuncs', 'lcapy/expr.py|extrafunctions.py|acdc.py|config.py', str(e)))
            res.obligations += 1
            em = None
        try:
            ns = TS.NumSim(core.REPO)
            texts['NumSimGen.v'] = ns.text()
            for msg_ in ns.soft_errors:
                # the per-step structure of the simulator changed: the model (new inverse of the stamped matrix with the
                # conductances of THIS step) is no longer known to describe it
                res.failed_obl.append(('translate_numsim_structure', 'lcapy/simulator.py', msg_))
                res.obligations += 1
        except TS.Untranslatable as e:
            res.failed_obl.append(('translate_numsim', 'lcapy/simulator.py|mnacpts.py|sexpr.py', str(e)))
            res.obligations += 1
            ns = None
        if ns is not None and ns.resp_ii is None:
            # the time-base bookkeeping of _response_impulse_invariance no longer has a shape the translator can resolve:
            # response_delay_time_base cannot be stated about the code
            res.failed_obl.append(('translate_response_time_base', 'lcapy/sexpr.py', str(ns.resp_ii_error)))
            res.obligations += 1
        for f_, t_ in texts.items():
            w.write(f_, t_)
        r0 = core.coqc_many(w.dir, list(texts), timeout=300)
        for f_, (ok, out, secs) in r0.items():
            if not ok:
                res.failed_obl.append(('definitions_' + f_[:-2], f_, out[-800:]))
                res.obligations += 1
                if f_ == 'NumFuncsGen.v':
                    em = None
                else:
                    ns = None
        # ---- 2. prove -------------------------------------------------------------
        tfiles = {}
        file_key = {}
        stmts = {}
        if em is not None:
            tfiles = theorem_files(em)
            for f_, d in tfiles.items():
                texts[f_] = d['text']
                file_key[f_] = d['key']
                stmts.update(d['stmts'])
            texts['C17.v'] = open(os.path.join(core.VERIF, 'coq', 'props', 'C17.v')).read()
        if ns is not None:
            texts['C17sim.v'] = open(os.path.join(core.VERIF, 'coq', 'props', 'C17sim.v')).read()
            if ns.resp_ii is not None:
                texts['C17resp.v'] = open(os.path.join(core.VERIF, 'coq', 'props', 'C17resp.v')).read()
        bad = core.gate_text('generated', '\n'.join(texts.values()))
        if bad:
            res.failed_obl.append(('gate', 'generated', '; '.join(bad)))
            res.obligations += 1
        files = [f_ for f_ in texts if f_ not in ('NumFuncsGen.v', 'NumSimGen.v')]
        for f_ in files:
            w.write(f_, texts[f_])
        r1 = core.coqc_many(w.dir, files, timeout=600)
        ok_keys = []
        if em is not None:
            ok_keys = [d['key'] for f_, d in tfiles.items() if f_.startswith('C17_f_') and r1[f_][0]]
            et, enames = expr_file(ok_keys, [f_ for f_ in nf.causal_funs if f_ in ok_keys])
            texts['C17_expr.v'] = et
            w.write('C17_expr.v', et)
            r1['C17_expr.v'] = core.coqc(w.dir, 'C17_expr.v', timeout=600)
            files.append('C17_expr.v')
        res.coq_results(w.dir, r1, {f_: texts[f_] for f_ in files})
        res.extra['coq_seconds'] = {f_: round(r[2], 1) for f_, r in r1.items()}
        res.extra['functions_with_proved_agreement'] = sorted(ok_keys)
        res.extra['generated_statements'] = stmts
        if nf is not None:
            res.extra['outside_model'] = {'numeric definitions present but not modelled': TF.NUM_OPAQUE,
                                          'lambdify table': nf.table, 'config': {k: str(v) for k, v in nf.cfg.items()}}

        phase['translate+prove'] = round(_t.time() - T0, 1)
        # ---- 3. run the real code ---------------------------------------------------
        nprobe = probe_cases()
        ngen = 120 if tier == 'quick' else 2500
        exact = expand_modes(nprobe + gen_exact_cases(rng, ngen))
        tcases = text_cases(rng, tier)
        scases = sim_cases(rng, tier)
        rcases = response_cases(rng, tier) + response_window_cases(random.Random(core.seed() * 7919 + 1703), tier)
        stcases = simstep_cases(rng, 4 if tier == 'quick' else 20)
        srcases = simres_cases(rng, tier)
        misc = [{'kind': 'lambdify'}, {'kind': 'rmodel', 'cpt': 'C'}, {'kind': 'rmodel', 'cpt': 'L'}]
        if replay:
            rc = replay.get('case')
            exact, tcases, scases, rcases, stcases, misc, srcases = [], [], [], [], [], [], []
            if rc:
                {'expr': exact, 'text': tcases, 'sim': scases, 'response': rcases, 'simres': srcases}.get(rc['kind'], misc).append(rc)
                if rc['kind'] in ('sim', 'response'):
                    d = dict(rc)
                    d['N'] = 4 * (int(rc['N']) - 1) + 1
                    {'sim': scases, 'response': rcases}[rc['kind']].append(d)
                exact = expand_modes(exact)
        allc = scases + rcases + exact + tcases + stcases + srcases + misc
        allr = core.run_impl('impl_numeval.py', allc, timeout=1500 if tier == 'quick' else 4000)
        ncrash = sum(1 for r in allr if 'worker crashed' in str(r.get('error', '')))
        if ncrash:
            # part of the run did not execute: never a silent pass, never blamed on the code under test
            res.count('worker_crashed_cases', ncrash)
            res.failed_obl.append(('infrastructure_worker', 'tools/impl_numeval.py', '%d cases lost: %s' % (
                ncrash, [r['error'] for r in allr if 'worker crashed' in str(r.get('error', ''))][0][:300])))
            res.obligations += 1
            allr = [({'timeout': True} if 'worker crashed' in str(r.get('error', '')) else r) for r in allr]
        phase['lcapy'] = round(_t.time() - T0 - phase['translate+prove'], 1)
        o = 0
        sres = allr[o:o + len(scases)]; o += len(scases)
        rres = allr[o:o + len(rcases)]; o += len(rcases)
        eres = allr[o:o + len(exact)]; o += len(exact)
        tres = allr[o:o + len(tcases)]; o += len(tcases)
        stres = allr[o:o + len(stcases)]; o += len(stcases)
        srres = allr[o:o + len(srcases)]; o += len(srcases)
        mres = allr[o:]
        res.programs = len(exact) + len(tcases) + len(scases) + len(rcases) + len(stcases) + len(srcases)
        if replay:
            print(json.dumps({'replayed': allc, 'lcapy': allr}, indent=1)[:6000])

        # ---- 4. exact class: oracle sweep + correspondence items ------------------------
        items = []       # (id, kind, text)
        meta = {}        # id -> (case index, point index or None, kind)
        defs = {}
        defects = set()  # (function, class) seen failing in single-function probes

        def add_cex(key, what, c, p=None, **kw):
            d = {'key': key, 'what': what, 'case': {k: v for k, v in c.items() if k not in ('pair_with',)}, 'point': p, 'found_input': True,
                 'how': './check C17 --replay <this file>'}
            d.update(kw)
            cex.append(d)

        def attribute(c, x, apps, kind):
            tag = c.get('tag', '')
            if tag.startswith('probe:') and tag[6:] in BREAKS and apps:
                fn, u, _ = apps[-1]
                defects.add((fn, cls_of(fn, u)))
                return '%s:%s:%s' % (kind, fn, cls_of(fn, u))
            for fn, u, _ in apps:
                if (fn, cls_of(fn, u)) in defects:
                    return '%s:%s:%s' % (kind, fn, cls_of(fn, u))
            return '%s:expr:%s' % (kind, tree_hash(c['tree']))
        nid = 0
        for ci, (c, r) in enumerate(zip(exact, eres)):
            if 'timeout' in r:
                res.count('impl_timeout')
                continue
            if 'error' in r:
                res.count('impl_error')
                add_cex('impl_error:' + r['error'].split(':')[0], 'building/evaluating the expression failed: ' + r['error'], c)
                continue
            forced = bool(c.get('causal'))
            cflag = bool(r.get('is_causal'))
            xs = [F(p) for p in c['points']]
            defs[ci] = 'Definition e_%d : ex := %s.' % (ci, ex_coq(c['tree']))
            vec = c['mode'] != 'scalar'
            pts_info = []
            vec_ok = True
            # a clause that is identically 0 after construction: Piecewise((0, cond))
            zero_clause = r.get('str', '').startswith('Piecewise((0,')
            want_names = set({'heav2': 'Heaviside', 'step2': 'UnitStep'}.get(n_, n_) for n_ in funcs_in(c['tree']))
            extra = set(r.get('funcs', [])) - want_names - {'Piecewise', 'Abs'}
            if r.get('const') and vec:
                # the expression folded to a constant: evaluate takes its `var is None` branch, which is not modelled
                res.count('constant_folded_vector')
                continue
            if extra:
                res.disagreements.append({'case': c, 'side': 'function names after construction', 'lcapy': {'funcs': r.get('funcs'), 'str': r.get('str')}})
            for j, (x, rj) in enumerate(zip(xs, r['res'])):
                apps = []
                try:
                    mv = pyeval(c['tree'], x, apps)
                except Singular:
                    res.count('points_singular')
                    pts_info.append(None)
                    vec_ok = False
                    continue
                # a float result is mapped back to a rational only for small values; otherwise the EXACT value of the float is
                # compared with the model inside Coq with a relative tolerance of 1e-9 (verdict in exact arithmetic)
                big = mv is not None and (mv.denominator > 10 ** 4 or abs(mv) > 10 ** 4)
                disc = any(a[2] for a in apps)
                on_pw = any(a[0] == 'pw' for a in apps)
                so = observed(rj, 'sym')
                no = observed(rj, 'num') if not (vec and 'vec_err' in r) else ('none',)
                if 'sym_raw' in rj and (big or so[0] == 'skip'):
                    # sympy produced a Float (trap's eval uses 0.5 literals): tolerance verdict as well
                    so = ('approx', F(float(rj['sym_raw'])))
                fl_ = rj.get('num_float', rj.get('num_inexact'))
                if (big or no[0] == 'skip') and fl_ is not None and not (vec and 'vec_err' in r):
                    fv_ = float(fl_)
                    if fv_ == fv_ and abs(fv_) != float('inf'):
                        no = ('approx', F(fv_))
                        res.count('points_tolerance_verdict')
                pts_info.append((x, so, no, disc, apps))
                res.add_case('%s|%s|%s' % (c['dom'], json.dumps(c['tree']), c['points'][j]), True,
                             {'case': c, 'lcapy': r} if (ci % 61 == 0 and j == 0) else None)
                res.count('dom_' + c['dom'])
                res.count('mode_' + c['mode'])
                if disc:
                    res.count('points_at_discontinuity')
                # correspondence items
                if so[0] != 'skip' and em is not None:
                    obs = 'None' if so[0] == 'none' else '(Some %s)' % qcl(so[1])
                    items.append((nid, 'sym', '%s (eval sym_tab e_%d %s) %s' % ('oclose' if so[0] == 'approx' else 'oqeq', ci, qcl(x), obs)))
                    meta[nid] = (ci, j, 'sym')
                    nid += 1
                if on_pw or zero_clause or disc:
                    # on the boundary of a condition / for an identically-zero clause evaluate goes through the
                    # limit()/simplify() fall-backs, and at a discontinuity the value depends on how doit()/lambdify
                    # rewrite the function (e.g. sign(z) -> z/|z| for the non-real symbol z): outside the model, and
                    # excluded by the property
                    vec_ok = False
                if not vec and no[0] != 'skip' and em is not None and not on_pw and not disc and not (zero_clause and so[0] == 'none'):
                    obs = 'ORaise' if no[0] == 'none' else '(OScalar %s)' % qcl(no[1])
                    items.append((nid, 'num', '%s (nrun %s e_%d (Scalar %s) None) %s' % (
                        'outclose' if no[0] == 'approx' else 'outeq', 'true' if cflag else 'false', ci, qcl(x), obs)))
                    meta[nid] = (ci, j, 'num')
                    nid += 1
                if no[0] == 'skip':
                    vec_ok = False
                    res.count('points_inexact_float')
                # ---- property oracle (independent of the Coq model): evaluate vs exact substitution
                if vec and 'vec_err' in r:
                    continue
                masked = cflag and x < 0
                if masked:
                    res.count('points_causal_negative')
                    if no[0] in ('val', 'approx') and no[1] != 0:
                        add_cex('causal_mask:nonzero-at-negative-time', 'causal expression does not evaluate to 0 at a negative time', c, c['points'][j], lcapy=rj)
                    if not forced and so[0] in ('val', 'approx') and abs(so[1]) > F(1, 10 ** 9):
                        add_cex(attribute(c, x, apps, 'causal_mask:inferred-causal-but-nonzero'),
                                'is_causal is inferred True but exact substitution at a negative time is not 0 (the mask changes the value)', c, c['points'][j], lcapy=rj)
                    continue
                if disc or so[0] == 'skip' or no[0] == 'skip':
                    continue
                if no[0] == 'approx' or so[0] == 'approx':
                    # tolerance verdict on the exact value of the float
                    if no[0] == 'none':
                        if not vec:
                            add_cex(attribute(c, x, apps, 'raises'), 'evaluate(%s) raises %s but exact substitution gives %s' % (
                                c['points'][j], rj.get('num_err'), float(so[1])), c, c['points'][j], lcapy=rj)
                    elif so[0] in ('val', 'approx'):
                        d_ = abs(so[1] - no[1])
                        sc_ = max(F(1), abs(so[1]))
                        if d_ > sc_ / 10 ** 6:
                            add_cex(attribute(c, x, apps, 'sym_ne_num'), 'evaluate(%s) = %s but exact substitution gives %s (not a discontinuity)' % (
                                c['points'][j], float(no[1]), float(so[1])), c, c['points'][j], lcapy=rj, float_evidence=True)
                        elif d_ > sc_ / 10 ** 9:
                            res.notes.append('rounding-level difference %.2e at %s (not reported)' % (float(d_ / sc_), c['points'][j]))
                    elif so[0] == 'none' and not zero_clause:
                        add_cex('extrapolated:%s' % tree_hash(c['tree']), 'no clause of the Piecewise applies at %s but evaluate returns %s' % (c['points'][j], float(no[1])),
                                c, c['points'][j], lcapy=rj)
                    continue
                if zero_clause and so[0] == 'none' and no[0] == 'val':
                    add_cex('extrapolated:zero-clause', '%s has no clause at %s but evaluate returns %s (identically-zero clause)' % (
                        r.get('str'), c['points'][j], no[1]), c, c['points'][j], lcapy=rj)
                    continue
                if so[0] == 'val' and no[0] == 'val' and so[1] != no[1]:
                    add_cex(attribute(c, x, apps, 'sym_ne_num'), 'evaluate(%s) = %s but exact substitution gives %s (not a discontinuity)' % (
                        c['points'][j], no[1], so[1]), c, c['points'][j], lcapy=rj, expected=fstr(so[1]), got=fstr(no[1]), math=fstr(mv) if mv is not None else None)
                elif so[0] == 'none' and no[0] == 'val':
                    add_cex('extrapolated:%s' % tree_hash(c['tree']), 'no clause of the Piecewise applies at %s but evaluate returns %s' % (c['points'][j], no[1]),
                            c, c['points'][j], lcapy=rj)
                elif so[0] == 'val' and no[0] == 'none' and not vec:
                    add_cex(attribute(c, x, apps, 'raises'), 'evaluate(%s) raises %s but exact substitution gives %s' % (
                        c['points'][j], rj.get('num_err'), so[1]), c, c['points'][j], lcapy=rj)
            # vector item: whole-list behaviour
            if vec and em is not None and vec_ok and all(pi is not None for pi in pts_info) and 'vec_err' not in r or (
                    vec and em is not None and 'vec_err' in r and all(pi is not None for pi in pts_info)):
                if 'vec_err' in r:
                    obs = 'ORaise'
                else:
                    obs = '(OVector [%s])' % '; '.join(qcl(pi[2][1]) for pi in pts_info) if all(pi[2][0] in ('val', 'approx') for pi in pts_info) else None
                if obs is not None:
                    items.append((nid, 'vec', '%s (nrun' % ('outclose' if any(pi[2][0] == 'approx' for pi in pts_info) else 'outeq') + ' %s e_%d (Vector [%s]) None) %s' % (
                        'true' if cflag else 'false', ci, '; '.join(qcl(x) for x in xs), obs)))
                    meta[nid] = (ci, None, 'vec')
                    nid += 1
                if 'vec_err' in r:
                    # a list evaluation may raise only if some element raises on its own (checked against the scalar twin below / the model)
                    res.count('vector_raises')
            # scalar twin vs array run of the same expression
            if 'pair_with' in c and not r.get('const'):
                r2 = eres[c['pair_with']]
                if 'error' not in r2 and 'timeout' not in r2:
                    if 'vec_err' in r2:
                        if all('num' in rj or 'num_inexact' in rj for rj in r['res']):
                            add_cex('array_ne_scalar:raises', 'array evaluation raises %s although every element evaluates as a scalar' % r2['vec_err'], c)
                    else:
                        for j, (a_, b_) in enumerate(zip(r['res'], r2['res'])):
                            fa, fb = a_.get('num_float', a_.get('num_inexact')), b_.get('num_float', b_.get('num_inexact'))
                            if fa is not None and fb is not None and float(fa) != float(fb):
                                add_cex('array_ne_scalar:%s' % tree_hash(c['tree']), 'array element %d = %s but scalar evaluation = %s' % (j, fb, fa), c, c['points'][j])
                            elif (fa is None) != (fb is None):
                                add_cex('array_ne_scalar:%s' % tree_hash(c['tree']), 'array and scalar evaluation differ in kind at element %d' % j, c, c['points'][j])
        # correspondence evaluation inside Coq
        corr_fail = []
        if em is not None and items and os.path.exists(w.path('NumFuncsGen.vo')):
            shards = [items[i:i + 400] for i in range(0, len(items), 400)]
            fns = []
            for si, sh in enumerate(shards):
                used = sorted(set(meta[i][0] for i, _, _ in sh))
                txt = cases_file(sh).replace('Definition failing', '\n'.join(defs[u] for u in used) + '\nDefinition failing', 1)
                # definitions must precede the case lists
                head, tail = txt.split('Definition symcases', 1)
                txt = head + 'Definition symcases' + tail
                w.write('cases_%d.v' % si, txt)
                fns.append('cases_%d.v' % si)
            cr = core.coqc_many(w.dir, fns, timeout=900)
            for f_, (ok, out, secs) in cr.items():
                ls = parse_lists(out) if ok else None
                if ls is None or len(ls) != 3:
                    res.failed_obl.append(('correspondence_eval', f_, out[-600:]))
                    res.obligations += 1
                else:
                    corr_fail += ls[0] + ls[1] + ls[2]
            res.extra['traces_validated_against_impl'] = len(items)
        for i in corr_fail:
            ci, j, kind = meta[i]
            res.disagreements.append({'case': exact[ci], 'point': None if j is None else exact[ci]['points'][j], 'side': kind,
                                      'lcapy': eres[ci]['res'][j] if j is not None else {k: v for k, v in eres[ci].items() if k != 'res'}})

        # ---- 5. float search oracle ----------------------------------------------------
        notes = []
        for c, r in zip(tcases, tres):
            if 'timeout' in r:
                res.count('impl_timeout')
                continue
            if 'error' in r:
                add_cex('impl_error:text:' + c['fkey'], 'expr(%r) failed: %s' % (c['text'], r['error']), c)
                continue
            cflag = bool(r.get('is_causal'))
            for p, rj in zip(c['points'], r['res']):
                res.add_case('text|%s|%s|%s' % (c['text'], p, c['mode']), True, None)
                res.count('search_points')
                if at_disc(c, p):
                    continue
                below = 'pw_ge' in c and ',' not in p and F(p) < F(c['pw_ge'])
                if 'vec_err' in r:
                    if not any(',' not in q and 'pw_ge' in c and F(q) < F(c['pw_ge']) for q in c['points']):
                        add_cex('raises:text:%s:vector' % c['fkey'], 'vector evaluation of %s raises %s' % (c['text'], r['vec_err']), c, p, lcapy=r.get('vec_msg'))
                    break
                if below:
                    if 'num' in rj and not cflag:
                        add_cex('extrapolated:text:' + c['fkey'], '%s is defined for t >= %s only but evaluate(%s) returns %s' % (c['text'], c['pw_ge'], p, rj['num']), c, p, lcapy=rj)
                    continue
                if 'sym' not in rj:
                    continue
                sv = complex(float(rj['sym'][0]), float(rj['sym'][1]))
                if 'num' not in rj:
                    add_cex('raises:text:%s:%s' % (c['fkey'], text_class(c, p)), 'evaluate(%s) of %s raises %s' % (p, c['text'], rj.get('num_err')), c, p, lcapy=rj)
                    continue
                nv = complex(float(rj['num'][0]), float(rj['num'][1]))
                if sv != sv or abs(sv) == float('inf'):
                    continue
                scale = max(1.0, abs(sv))
                d = abs(nv - sv) if nv == nv else float('inf')
                if d <= 1e-9 * scale:
                    continue
                if d > 1e-6 * scale:
                    key = 'sym_ne_num:%s:%s' % (c['fkey'], text_class(c, p))
                    if ',' not in p:
                        for n_, a_, b_ in c.get('apps', []):
                            u_ = F(a_) * F(p) + F(b_)
                            if (n_, cls_of(n_, u_)) in defects:
                                key = 'sym_ne_num:%s:%s' % (n_, cls_of(n_, u_))
                                break
                    add_cex(key, 'evaluate(%s) of %s = %r but sympy.N(subs, 50) = %r' % (p, c['text'], nv, sv),
                            c, p, lcapy=rj, float_evidence=True)
                else:
                    notes.append('rounding-level difference %.2e (not reported): %s at %s' % (d / scale, c['text'], p))
        res.notes += notes[:10]
        # lambdify contract, companion netlists, exact one-step formulas
        sim_items = []
        for c, r in zip(misc, mres):
            if 'timeout' in r:
                res.count('impl_timeout')
                continue
            if c['kind'] == 'lambdify':
                if 'error' in r or 'sinc(t/pi)' not in r.get('src', ''):
                    res.disagreements.append({'case': c, 'lcapy': r, 'side': 'lambdify contract sinc(x) -> sinc(x/pi)'})
                res.extra['lambdify_sinc_source'] = r.get('src')
            elif c['kind'] == 'rmodel' and ns is not None:
                want = ns.rmodel[c['cpt']]
                if 'error' in r or 'R' not in r or 'V' not in r:
                    res.disagreements.append({'case': c, 'lcapy': r, 'side': 'r_model netlist'})
                    continue
                names = {'2': 'N1', '3': 'N2'}
                got = {'R': [names.get(n, 'N3') for n in r['R']], 'V': [names.get(n, 'N3') for n in r['V']]}
                if got['R'] != want['R'] or got['V'] != want['V'] or r['R'][1] != r['V'][0] and want['R'][1] == want['V'][0]:
                    res.disagreements.append({'case': c, 'lcapy': r, 'side': 'r_model orientation', 'model': want})
                res.count('rmodel_checked')
        if ns is not None and os.path.exists(w.path('NumSimGen.vo')):
            TAG = {k: v[0] for k, v in TS.CLASSES.items()}
            lines = []
            for i, (c, r) in enumerate(zip(stcases, stres)):
                if 'timeout' in r:
                    res.count('impl_timeout')
                    continue
                if 'error' in r:
                    res.disagreements.append({'case': c, 'lcapy': r, 'side': 'simstep'})
                    continue
                t = TAG[c['cls']]
                X, dt, v1, v2, ip = (qcl(c[k]) for k in ('X', 'dt', 'v1p', 'v2p', 'ip'))
                g = '(geq_%s (K:=QcF) %s %s)' % (t, X, dt)
                v = '(veq_%s (K:=QcF) %s %s %s %s %s)' % (t, X, dt, v1, v2, ip)
                conds = ['qc_eqb %s %s' % (g, qcl(r['geq'])), 'qc_eqb %s %s' % (v, qcl(r['veq'])),
                         'qc_eqb (1 / %s)%%Qc %s' % (g, qcl(r['Req'])), 'qc_eqb %s %s' % (v, qcl(r['Veq'])), 'qc_eqb %s %s' % (v, qcl(r['Z'][3]))]
                idx = {'N1': 0, 'N2': 1, 'N3': 2}
                for rn in idx:
                    for cn in idx:
                        conds.append('qc_eqb (entry stamp_A %s %s %s) %s' % (g, rn, cn, qcl(r['A'][idx[rn]][idx[cn]])))
                lines.append('(%d%%nat, %s)' % (i, ' && '.join(conds)))
                pyok = all(F(r['A'][3][k]) == 0 and F(r['A'][k][3]) == 0 for k in range(4)) and all(F(z) == 0 for z in r['Z'][:3])
                guard = ns.defs[(t, 'veq')]['guard']
                if not pyok or (guard and r['veq0'] != '0/1'):
                    res.disagreements.append({'case': c, 'lcapy': r, 'side': 'simstep stamp rows / n<1 guard'})
                res.add_case('simstep|' + json.dumps(c, sort_keys=True), True, None)
            w.write('simcases.v', SIM_CASES_HDR + 'Definition cases : list (nat * bool) := [\n%s].\nEval vm_compute in (failing cases).\n' % ';\n'.join(lines))
            ok, out, secs = core.coqc(w.dir, 'simcases.v', timeout=300)
            fl = core.parse_eval_list(out) if ok else None
            if fl is None:
                res.failed_obl.append(('correspondence_eval', 'simcases.v', out[-600:]))
                res.obligations += 1
            else:
                for i in fl:
                    res.disagreements.append({'case': stcases[i], 'lcapy': stres[i], 'side': 'simstep geq/veq/stamp vs Gen.NumSimGen'})

        # ---- 6. convergence search (floats; reported only far above rounding) --------------
        def errs(groups):
            out = {}
            for (cid, N), (c, ys, ref) in groups.items():
                out.setdefault(cid, []).append((N, max(abs(a - b) for a, b in zip(ys, ref)), c, ys, ref))
            return {k: sorted(v) for k, v in out.items()}
        groups = {}
        rec_runs = []
        for c, r in zip(scases, sres):
            if 'timeout' in r:
                res.count('impl_timeout')
                continue
            if 'error' in r:
                add_cex('sim:error:' + c['id'], 'Simulator failed: ' + r['error'], c)
                continue
            N = int(c['N'])
            tv = r['tv']
            if 'rec' in c:
                rec_runs.append((c, r))
                continue
            ref = sim_ref(c['ref'], tv)
            if 'sym' in r and max(abs(a - b) for a, b in zip(r['sym'][1:], ref[1:])) > 1e-6:
                add_cex('sim:symbolic-response-differs:' + c['id'], 'the symbolic response of %s differs from the closed form' % c['probe'][0], c, float_evidence=True)
            groups[(c['id'], N)] = (c, r[c['probe'][0]], ref)
        # step-by-step: Simulator vs the exact recursion of the translated companion formulas, evaluated in Coq over Qc
        # with the step size of EACH step; the simulator works in floats, so the comparison is |model - float| <= 1e-9 (1 + |model|)
        if ns is not None and rec_runs and os.path.exists(w.path('NumSimGen.vo')):
            lines = []
            for i, (c, r) in enumerate(rec_runs):
                kind, Rv_, Xv_, Vs_ = c['rec']
                tag = kind + ('T' if c['integrator'] == 'trapezoid' else 'B')
                tvq = [F(t) for t in r['tv']]
                dts = '[%s]' % '; '.join(qcl(b - a) for a, b in zip(tvq, tvq[1:]))
                vs = r[c['probe'][0]][1:]
                is_ = r[c['probe'][1]][1:]
                obs = '[%s]' % '; '.join('(%s, %s)' % (qcl(F(a)), qcl(F(b))) for a, b in zip(vs, is_))
                lines.append('(%d%%nat, close_run (series_run (K:=QcF) geq_%s veq_%s %s %s %s %s (0%%Qc, 0%%Qc)) %s)' % (
                    i, tag, tag, qcl(Xv_), qcl(Rv_), qcl(Vs_), dts, obs))
            w.write('simrec.v', SIM_CASES_HDR + SIM_REC_HDR + 'Definition cases : list (nat * bool) := [\n%s].\nEval vm_compute in (failing cases).\n' % ';\n'.join(lines))
            ok, out, secs = core.coqc(w.dir, 'simrec.v', timeout=600)
            fl = core.parse_eval_list(out) if ok else None
            res.extra['recursion_runs_compared'] = len(rec_runs)
            if fl is None:
                res.failed_obl.append(('correspondence_eval', 'simrec.v', out[-600:]))
                res.obligations += 1
            else:
                for i in fl:
                    c, r = rec_runs[i]
                    add_cex('sim:differs-from-companion-recursion:%s' % c['id'].split(':', 1)[1],
                            'Simulator(%s) on the %s time vector differs from the step-by-step recursion v = i/geq(dt_k) + veq(dt_k), Vs - v = R i '
                            'of the translated companion model by more than 1e-9' % (c['integrator'], c['grid']), c, lcapy={'tv': r['tv'], c['probe'][0]: r[c['probe'][0]]},
                            float_evidence=True)
            for c, r in rec_runs:
                res.add_case('simrec|' + c['id'], True, None)
        # arbitrary circuits: every step of the real run must satisfy (A + stamps(geq(dt_k))) x_k = Z(t_k) + veq(dt_k, x_(k-1))
        if ns is not None and srcases and os.path.exists(w.path('NumSimGen.vo')):
            TAG = {k: v[0] for k, v in TS.CLASSES.items()}
            lines, good = [], []
            for c, r in zip(srcases, srres):
                if 'timeout' in r:
                    res.count('impl_timeout')
                    continue
                if 'error' in r:
                    add_cex('sim:error:' + c['id'], 'Simulator failed: ' + r['error'], c)
                    continue
                qf = lambda v: qcl(F(float(v)))
                n_ = int(r['nn']) + int(r['nb'])
                rows = '[%s]' % '; '.join('[%s]' % '; '.join(qf(v) for v in row) for row in r['A'])
                cds = []
                for q in r['cpts']:
                    t = TAG[q['cls']]
                    cds.append('MkC (fun dt => geq_%s (K:=QcF) %s dt) (fun dt a b i => veq_%s (K:=QcF) %s dt a b i) (%d) (%d) (%d) (%d)' % (
                        t, qf(q['X']), t, qf(q['X']), q['i1'], q['i2'], q['i3'], q['ib']))
                tvq = [F(float(t)) for t in r['tv']]
                steps = []
                for k in range(1, len(tvq)):
                    steps.append('(%s, [%s], [%s])' % (qcl(tvq[k] - tvq[k - 1]), '; '.join(qf(v) for v in r['Z'][k]), '; '.join(qf(v) for v in r['x'][k])))
                lines.append('(%d%%nat, run_ok (map Z.of_nat (seq 0 %d)) %s (%d)%%Z [%s] [%s] [%s])' % (
                    len(good), n_, rows, int(r['nn']), '; '.join(cds), '; '.join(steps), '; '.join(qf(v) for v in r['x'][0])))
                good.append((c, r))
                res.add_case('simres|' + c['id'], True, None)
                res.count('sim_steps_rechecked', len(tvq) - 1)
            w.write('simres.v', SIM_CASES_HDR + SIMRES_HDR + 'Definition cases : list (nat * bool) := [\n%s].\nEval vm_compute in (failing cases).\n' % ';\n'.join(lines))
            ok, out, secs = core.coqc(w.dir, 'simres.v', timeout=600)
            fl = core.parse_eval_list(out) if ok else None
            if fl is None:
                res.failed_obl.append(('correspondence_eval', 'simres.v', out[-600:]))
                res.obligations += 1
            else:
                for i in fl:
                    c, r = good[i]
                    add_cex('sim:step-violates-stamped-system:' + c['id'], 'a step of Simulator(%s) on the %s time vector does not satisfy '
                            '(A + stamps(geq(dt_k))) x_k = Z(t_k) + veq(dt_k, x_(k-1)) of the translated model (tolerance 1e-7)' % (c['integrator'], c['grid']),
                            c, lcapy={'tv': r['tv'], 'x': r['x']}, float_evidence=True)
        conv = {}
        for cid, lst in errs(groups).items():
            if len(lst) < 2:
                continue
            (N1, e1, c1, _, _), (N2, e2, c2, _, _) = lst[0], lst[-1]
            conv[cid] = [e1, e2]
            res.add_case('sim|' + cid, True, None)
            if not (e2 <= 0.6 * e1 or e2 <= 1e-9) and e2 > 1e-3:
                add_cex('sim:no-convergence:' + cid, 'max error of %s vs the closed form does not shrink with the step: %.3g (N=%d) -> %.3g (N=%d)' % (
                    c2['probe'][0], e1, N1, e2, N2), c2, float_evidence=True)
        groups = {}
        wgroups = {}
        interp_runs = []
        for c, r in zip(rcases, rres):
            if 'timeout' in r:
                res.count('impl_timeout')
                continue
            if 'error' in r:
                add_cex('response:error:' + c['id'], 'response() failed: ' + r['error'], c)
                continue
            N = int(c['N'])
            if 'hw' in c:
                # window case: exact response of the partial fractions to the input switched on at t1, delayed by `delay`,
                # at the instants the real run was given (r['tv'] are exact dyadic floats)
                if len(r['y']) != N or len(r['tv']) != N:
                    add_cex('response:wrong-length:' + c['id'], 'response() returned %d samples for %d instants' % (len(r['y']), N), c)
                    continue
                pf, sh = RESPW_H[c['hw']][1], float(F(c['t1'])) + float(F(c['delay']))
                wgroups[(c['gid'], N)] = (c, r['y'], [respw_ref(pf, c['input'], t - sh) for t in r['tv']])
                if c.get('interp'):
                    interp_runs.append((c, r))
                continue
            tv = [float(F(c['T'])) * i / (N - 1) for i in range(N)]
            groups[(c['id'], N)] = (c, r['y'], [RESP_H[c['hi']][1](t) for t in tv])
        # windows starting at / before / after 0: the error against the exact response must be first order in the step:
        # bounded by C dt on the fine grid and smaller on the fine grid than on the coarse one.  C = 4 (sum |r_i|) (1 + b) is
        # four times the first-order constant of a one-sample shift of the response (|y'| <= sup|h| sup|x| <= sum |r_i|) plus the
        # rectangle-rule defect of the convolution (sup|x'| int|h| <= b sum |r_i| / p_i <= b sum|r_i|); observed errors are
        # below 1.1 (sum |r_i|) dt for every method.  A wrong time base gives an error that does not depend on dt at all.
        for gid, lst in errs(wgroups).items():
            if len(lst) < 2:
                continue
            (N1, e1, c1, y1, f1), (N2, e2, c2, y2, f2) = lst[0], lst[-1]
            cid = c2['id']
            conv[gid] = [e1, e2]
            res.add_case('response|' + gid, True, None)
            res.count('response_window_pairs')
            h2 = float(F(c2['T'])) / (N2 - 1)
            Cb = 4.0 * sum(abs(r_) for r_, _ in RESPW_H[c2['hw']][1]) * (1 + float(F(RESPW_B)))
            shrinks = e2 <= 0.6 * e1 or e2 <= 1e-9
            if (not shrinks and e2 > 1e-3) or e2 > Cb * h2:
                t0_, dl_ = float(F(c2['t0'])), float(F(c2['delay']))
                pf = RESPW_H[c2['hw']][1]
                tv2 = [t0_ + h2 * i for i in range(N2)]
                # diagnosis only: the output as it would be if the delayed signal were interpolated on a grid starting at 0
                # (only where such a grid [0, T] covers the query instant; outside it the interpolant is filled with 0)
                alt = max([abs(a - respw_ref(pf, c2['input'], t + t0_ - float(F(c2['t1'])) - dl_)) for a, t in zip(y2, tv2)
                           if 0 <= t - dl_ <= float(F(c2['T']))] or [float('inf')])
                hint = ('; the result matches the exact response shifted by the start of the window t0 = %s to within %.3g (time base of the delayed '
                        'output is not the caller\'s time vector)' % (c2['t0'], alt)) if alt <= Cb * h2 and t0_ != 0 else ''
                add_cex('response:no-convergence:' + cid,
                        '(%s).response(x, linspace(%s, %s + 4, N), method=%s%s) with x = %s switched on at t = %s: max error vs the exact response %.3g (N=%d) '
                        '-> %.3g (N=%d), first-order bound %.3g%s' % (c2['H'], c2['t0'], c2['t0'], c2['method'], ', alpha=%s' % c2['alpha'] if 'alpha' in c2 else '',
                                                                 c2['input'], c2['t1'], e1, N1, e2, N2, Cb * h2, hint), c2, float_evidence=True)
        # the interpolation step of real impulse-invariance runs against the model: abscissae = the TRANSLATED time base of the
        # window, query instants = translated base minus the delay, result = exact linear interpolation (fill 0 outside) of what
        # the run handed to interp1d; evaluated in Coq over Qc on the exact values of the floats (tolerance verdict in Qc)
        coarse = [(c, r) for c, r in interp_runs if int(c['N']) <= 129 and r.get('interp')]
        if ns is not None and ns.resp_ii is not None and coarse and os.path.exists(w.path('NumSimGen.vo')):
            lines = []
            qf = lambda v: qcl(F(float(v)))
            ql = lambda l: '[%s]' % '; '.join(qf(v) for v in l)
            for i, (c, r) in enumerate(coarse):
                e = r['interp'][-1]
                N = int(c['N'])
                pyok = (r['ninterp'] == 1 and len(e['xs']) == N and len(e['ys']) == N and len(e.get('q', [])) == N and e.get('out') == r['y']
                        and e['args'] == 0 and e['kw'] == {'bounds_error': 'False', 'fill_value': '0'})
                if not pyok:
                    res.disagreements.append({'case': c, 'lcapy': {k: v for k, v in e.items() if k in ('args', 'kw')}, 'side': 'response interpolation call shape'})
                    continue
                t0q, dtq = qf(r['tv'][0]), qcl(F(r['tv'][1]) - F(r['tv'][0]))
                lines.append('(%d%%nat, resp_ok %s %s %s %d %s %s %s %s)' % (i, t0q, dtq, qf(float(F(c['delay']))), N, ql(e['xs']), ql(e['ys']), ql(e['q']), ql(e['out'])))
                res.add_case('respinterp|' + c['gid'], True, None)
            w.write('simresp.v', SIM_CASES_HDR.replace('LT.NumEvalSim Gen.NumSimGen', 'LT.NumEvalSim LT.NumEvalResp Gen.NumSimGen') + SIM_REC_HDR + RESP_HDR +
                    'Definition cases : list (nat * bool) := [\n%s].\nEval vm_compute in (failing cases).\n' % ';\n'.join(lines))
            ok, out, secs = core.coqc(w.dir, 'simresp.v', timeout=600)
            fl = core.parse_eval_list(out) if ok else None
            res.extra['response_interpolations_compared'] = len(lines)
            res.extra.setdefault('coq_seconds', {})['simresp.v'] = round(secs, 1)
            if fl is None:
                res.failed_obl.append(('correspondence_eval', 'simresp.v', out[-600:]))
                res.obligations += 1
            else:
                for i in fl:
                    c, r = coarse[i]
                    res.disagreements.append({'case': c, 'lcapy': {'tv0': r['tv'][0], 'interp_xs0': r['interp'][-1]['xs'][0], 'q0': r['interp'][-1]['q'][0]},
                                              'side': 'response interpolation time base / linear interpolation vs Gen.NumSimGen resp_ii_*'})
        for cid, lst in errs(groups).items():
            if len(lst) < 2:
                continue
            (N1, e1, c1, y1, f1), (N2, e2, c2, y2, f2) = lst[0], lst[-1]
            conv[cid] = [e1, e2]
            res.add_case('response|' + cid, True, None)
            if not (e2 <= 0.6 * e1 or e2 <= 1e-9) and e2 > 1e-3:
                h1, h2 = float(F(c1['T'])) / (N1 - 1), float(F(c2['T'])) / (N2 - 1)
                d1 = max(abs(a / h1 - b) for a, b in zip(y1, f1))
                d2 = max(abs(a / h2 - b) for a, b in zip(y2, f2))
                key = 'response:result-scaled-by-dt' if d2 <= 0.6 * d1 else 'response:no-convergence:' + cid
                # all samples but the last converge: the derivative of the input is zeroed at the final point
                l1 = max(abs(a - b) for a, b in zip(y1[:-1], f1[:-1]))
                l2 = max(abs(a - b) for a, b in zip(y2[:-1], f2[:-1]))
                if l2 <= 0.6 * l1 and 'improper' in cid:
                    key = 'response:impulse-invariance:improper-last-sample'
                add_cex(key, '%s.response(x, t, method=%s): max error vs the symbolic response %.3g (N=%d) -> %.3g (N=%d); error of result/dt: %.3g -> %.3g' % (
                    c2['H'], c2['method'], e1, N1, e2, N2, d1, d2), c2, float_evidence=True)
        res.extra['convergence_errors_coarse_fine'] = conv
        res.rule = ('exact class: %d generated expressions in t,f,omega,s,n,k,z (sums/products of rational functions, Heaviside/DiracDelta/sign/rect/tri/'
                    'ramp/rampstep/trap/UnitStep/UnitImpulse/dtrect/dtsign of affine arguments, one- and two-clause Piecewise) + single-function probes, '
                    'each at <= 10 dyadic points (negatives, 0, break points +- 1/8..1/32, large), scalar/list/tuple/array; float search: %d templates; '
                    'non-trivial = the point entered an exact or float comparison; distinct = distinct (domain, expression, point)') % (ngen, len(tcases))

        # ---- 7. decide ------------------------------------------------------------------
        seen = {}
        for d in cex:
            seen.setdefault(d['key'], d)
        percls = {}
        for k, d in seen.items():
            # at most three replay files per class of hashed (unattributed) keys
            if re.search(r':[0-9a-f]{8}$', k):
                pc = k.rsplit(':', 1)[0]
                percls[pc] = percls.get(pc, 0) + 1
                if percls[pc] > 3:
                    continue
            d = dict(d)
            d['replay'] = {'case': d['case'], 'point': d.get('point')}
            violations.append(d)
        new_keys = [k for k in seen if k not in known_open]
        THM_EXPLAIN = [(r'^causal_', ('causal_mask',)), (r'^(array_|scalar_)', ('array_ne_scalar',)), (r'^(no_extrapolation|conditioned_)', ('extrapolated',)),
                       (r'^(cap_|ind_|rmodel_|stamp_|pade)', ('sim:',)), (r'^gbt_', ('response:',)), (r'^response_', ('response:',))]

        def explained(name, f_):
            if f_ in file_key:
                ks = file_key[f_] if isinstance(file_key[f_], tuple) else (file_key[f_],)
                return any(q.split(':')[0] in ('sym_ne_num', 'raises') and q.split(':')[1] in ks for q in seen)
            if f_ == 'C17_expr.v':
                return any(not r1[g][0] for g in tfiles)      # a per-function theorem is already reported
            for pat, prefs in THM_EXPLAIN:
                if re.match(pat, name):
                    return any(q.startswith(prefs) for q in new_keys)
            if name.startswith(('translate_', 'definitions_', 'gate', 'correspondence_eval')):
                return bool(new_keys)
            return False
        for name, f_, msg in ([] if replay else res.failed_obl):
            if explained(name, f_):
                continue
            violations.append({'key': 'obligation:' + name, 'what': 'Coq obligation %s in %s no longer checks' % (name, f_),
                               'theorem': name, 'file': f_, 'statement': stmts.get(name), 'message': msg, 'found_input': False})
        phase['total'] = round(_t.time() - T0, 1)
        res.extra['phase_seconds'] = phase
        res.extra['disagreement_samples'] = res.disagreements[:5]
        dk = set()
        for d in res.disagreements:
            c = d['case']
            k = 'correspondence:%s:%s' % (d.get('side'), ','.join(sorted(set(funcs_in(c.get('tree', []))))) or c.get('kind', c.get('cls', '')))
            if k in dk:
                continue
            dk.add(k)
            if new_keys and d.get('side') in ('num', 'vec', 'sym'):
                # the same run produced a concrete failing input that is not a recorded finding: report that one
                continue
            violations.append({'key': k, 'what': 'model and real code differ (%s side)' % d.get('side'), 'case': c, 'point': d.get('point'),
                               'lcapy': d.get('lcapy'), 'found_input': False, 'correspondence': 'Gen.NumFuncsGen / Gen.NumSimGen vs lcapy'})
        # keep the report readable when one change breaks everything: all recorded findings + the first 25 others
        kept, nnew = [], 0
        for v in violations:
            if v.get('key') in known_open:
                kept.append(v)
            elif nnew < 25:
                kept.append(v)
                nnew += 1
        res.extra['violations_not_listed'] = len(violations) - len(kept)
        return core.finish(res, kept)
    finally:
        if not os.environ.get('VERIF_KEEP'):
            w.cleanup()


if __name__ == '__main__':
    sys.exit(run(sys.argv[1] if len(sys.argv) > 1 else 'quick'))
