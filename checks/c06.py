"""C06 — netlist text round-trips: printing and re-parsing gives the same circuit.

  translate   lcapy/grammar.py (rules/params/delimiters/comments strings), the suffix table of
              lcapy/valueparser.py and a few guards -> Gen/ParserGrammarGen.v  (tools/tr_grammar.py);
              the Coq model parses the grammar text itself (LT.ParserModel.mk_grammar)
  prove       coq/theory/ParserThm.v (for all inputs, built by --setup), restated in props/C06.v;
              Gen/C06_grammar.v (template below): the theorems instantiated on the regenerated
              grammar - rules_wf by vm_compute over the complete finite rule table, then
              parse_print / idempotence / rejection for every rule of that table
  correspond  every grammar rule x optional-argument subsets x named/positional x value/name/node/
              option shapes + netlists + a malformed stream + value_parser + Opts: what the real
              code parsed and printed is compared with the hand model INSIDE Coq (cases_k.v)
  search      Circuit(str(Circuit(x))) structural equality and idempotence of printing, on the real
              code only (independent of the model); on add/remove histories also the naming contract
              (an anonymous add appends exactly one element, under a name never generated before)
"""
import json
import os
import time
import random
import re
import sys
from fractions import Fraction

sys.path.insert(0, os.path.dirname(os.path.dirname(os.path.abspath(__file__))))
from vlib import core
sys.path.insert(0, os.path.join(core.VERIF, 'tools'))
import tr_grammar as T

PID = 'C06'
MANIFEST = {
    'text': 'Coq theorems (induction over character and field lists, for all inputs and any grammar) about an executable model of '
            'the netlist reader (split with brace/quote stack, rule selection by keyword, node/argument extraction, named '
            'parameters, anonymous naming, Opts) and writer (_netmake1, _arg_format, default elision, None handling): '
            'split(join fs) = fs for every list of self-contained fields; strip(arg_format v) = v; Opts parse(format o) = o; '
            'parse(print c) = norm c for every well-formed component of every rule of a grammar whose finite table passes '
            'grammar_ok, with norm idempotent and print(norm c) = print c (printing is a fixed point from the first round trip); '
            'the same up to the fresh name for anonymous A/O/W/P components; rejection theorems (unbalanced braces, unknown '
            'type, too many fields, missing node, unknown/duplicate named parameter, value after named parameter); engineering '
            'suffix values; parse_namespace: for every line, parsing inside a namespace (.include file as name) equals parsing without '
            'it and prefixing the namespace to the name and to every node; name_rejoin; for each open finding a *_refuted witness '
            'that the corresponding hypothesis of parse_print cannot be dropped; the component namer over arbitrary histories of '
            'Circuit.add / Circuit.remove (ParserNamer.v): namer_fresh (pigeonhole: the generated name is in neither list the namer '
            'looks at), namer_least (it is prefix+str(m) for the least free m >= 1; str(m) injective), make_anon_spec, hist_invariant '
            '(element names pairwise distinct and no generated name handed out twice, also after removals), hist_memory, '
            'add_anon_appends / add_line_appends (an anonymous component without namespace never replaces one), remove_spec, and the witness '
            'anon_appends_in_namespace_refuted that the no-namespace condition cannot be dropped.  The grammar table and the suffix table are regenerated from lcapy/grammar.py and lcapy/valueparser.py on '
            'every run (the Coq model parses the grammar text itself) and grammar_ok is decided by vm_compute over the complete '
            'table.  The hand model is compared with the real code inside Coq on an enumeration of the whole grammar on every run, '
            'and a round-trip oracle runs on the real code alone.',
    'note': 'Trusted: Coq kernel/vm_compute; tools/tr_grammar.py (copies four string constants and one dict, plus three source '
            'guards and the five literal separators of the writer, tied to the model by printer_constants_guard; ComponentNamer.name, '
            '_make_anon_cpt_name and Netlist.remove are compared statement for statement with the text the model mirrors and the '
            'start index is tied by namer_constants_guard); the hand model '
            'coq/theory/ParserModel.v (now including netlist files, Circuit(filename)/netfile_add and nested .include with the file system as a '
            'parameter, and add/remove histories with the namer memory), validated against the real parser/printer on every run (exhaustive in '
            'grammar rules and optional-argument subsets, sampled in value/name/node/option shapes); component constructors (sympy '
            'parsing of values) are outside the model; relative include paths / cwd lookup are not modelled; ASCII only.  The hypotheses of parse_print (wf_cpt, decidable) '
            'exclude exactly the input shapes listed as known findings; the run reports how many accepted inputs lie inside them and '
            'flags any real round-trip failure inside them.  That None and 0 mean the same to the constructors is checked by the '
            'oracle on the built one-ports, not proved.',
    'technique': 'Coq proof (induction over character/field lists + vm_compute over the regenerated finite grammar) + in-Coq '
                 'correspondence evaluation of a hand model + round-trip search oracle on the real code',
}

RULE_TAGS = ('enum', 'shape', 'kw0', 'optsdef')
ERR = {'unbalanced': 'EUnbalanced', 'unknown_cpt': 'EUnknownCpt', 'too_many': 'ETooMany', 'missing_node': 'EMissingNode',
       'missing_arg': 'EMissingArg', 'after_named': 'EAfterNamed', 'unknown_param': 'EUnknownParam', 'assigned': 'EAssigned',
       'index': 'EIndex', 'opts_braces': 'EOptsBraces', 'include': 'EInclude', 'empty_ns': 'EEmptyNs', 'unknown_kw': 'EUnknownKw'}


# ---- Coq literals -------------------------------------------------------------
def cs(s):
    """Coq term of type str: 7 bytes per primitive integer, byte count in bits 56.. (LT.ParserCases.u)"""
    b = bytes((ord(c) if ord(c) < 256 else 255) for c in s)
    out = []
    for i in range(0, len(b), 7):
        chunk = b[i:i + 7]
        v = len(chunk) << 56
        for k, c in enumerate(chunk):
            v |= c << (8 * k)
        out.append(str(v))
    return '(u [' + ';'.join(out) + '])'


def clist(xs):
    return '[' + '; '.join(xs) + ']'


def c_oval(v):
    t, x = v
    if t == 's':
        return '(OStr %s)' % cs(x)
    if t == 'b':
        return '(OBool %s)' % ('true' if x else 'false')
    if t == 'l':
        return '(OList %s)' % clist(c_oval(y) for y in x)
    return '(OStr %s)' % cs('?unmodelled?' + str(x))


def c_opts(o):
    return clist('(%s, %s)' % (cs(k), c_oval(v)) for k, v in o)


def c_cpt(e):
    cls, name, nodes, args, kw, o, string = e
    return '(mkC %s %s %s %s %s %s %s %s)' % (
        cs(cls), cs(name), clist(cs(n) for n in nodes),
        clist('None' if a is None else '(Some %s)' % cs(a) for a in args),
        'None' if kw[0] is None else '(Some %d%%nat)' % kw[0], cs(kw[1]), c_opts(o), cs(string))


def ascii_ok(s):
    return all(ord(c) < 128 for c in s)


# ---- generators -----------------------------------------------------------------
VAL_NUM = ['5', '12', '0.5', '1e3', '-3']
VAL_SUF = ['4.7k', '10u', '2M', '3n', '1.5m']
VAL_SYM = ['Rx', 'a_1', 'Vs']
VAL_BRACE = ['{2 * (a + 1)}', '{(x + 1) / 2}', '{3*(a + b)}']
VAL_QUOTE = ['"3*b"', '"2 * (c + 1)"']
VAL_BSIMPLE = ['{7}', '{k1}']
SHAPES = ['num', 'suf', 'sym', 'brace', 'quote', 'bsimple']
POOL = {'num': VAL_NUM, 'suf': VAL_SUF, 'sym': VAL_SYM, 'brace': VAL_BRACE, 'quote': VAL_QUOTE, 'bsimple': VAL_BSIMPLE}
NAME_SHAPES = ['plain', 'under', 'anon', 'ns', 'ns2']
NODE_SHAPES = ['num', 'under', 'dotted', 'pin']
OPTS_DEF = 'l=x, def={x,y}, def=z'
OPTS = ['', 'right', 'right=2, l={a, b}', 'l=foo, color=blue, size = 1.5 ', 'a=true, b=False, c', 'down, l=a;b, v_=$V_1$',
        'right, right=3, l^={R_{x,y}}', ' ']
SEPS = [' ', ' ', ' ', '  ', '\t', ', ', ' ,']


def mk_name(ty, shape):
    if shape == 'plain':
        return ty + '1'
    if shape == 'under':
        return ty + 'x_2'
    if shape == 'anon':
        return ty + '?'
    if shape == 'ns':
        return 'a.' + ty + '1'
    if shape == 'ns2':
        return 'a.b.' + ty + '3'
    if shape == 'bare':
        return ty
    raise ValueError(shape)


def mk_node(k, shape):
    if shape == 'num':
        return str(k)
    if shape == 'under':
        return 'a_%d' % k
    if shape == 'dotted':
        return 'U1.out%d' % k
    if shape == 'pin':
        return '.p%d' % k
    raise ValueError(shape)


def subsets(xs):
    out = [[]]
    for x in xs:
        out += [s + [x] for s in out]
    return out


def build_line(rule, rng, name_shape, node_shape, shapes, j, named, kwcase=0, sep=' ', opts='', first_val=None,
               paren_nodes=False, optsep=';'):
    """one netlist line for `rule`: required args + the first j optional args positional, `named` (indices into the
    optional list) given as name=value"""
    cls, ty, ps, pos = rule
    fields = [mk_name(ty, name_shape)]
    k = 1
    argi = 0
    opt_i = 0
    named_fields = []
    nodes_idx = []
    for (nm, kind, opt, d) in ps:
        if kind in ('node', 'pin'):
            nodes_idx.append(len(fields))
            fields.append(mk_node(k, node_shape))
            k += 1
        elif kind == 'keyword':
            fields.append([nm, nm.upper(), nm.capitalize()][kwcase % 3])
        elif kind in ('name', 'value'):
            if kind == 'name':
                v = ['La', 'Vc', 'Lb'][argi % 3]
            else:
                sh = shapes[argi % len(shapes)]
                v = POOL[sh][rng.randrange(len(POOL[sh]))]
                if argi == 0 and first_val is not None:
                    v = first_val
            if not opt:
                fields.append(v)
            else:
                if opt_i < j:
                    fields.append(v)
                elif opt_i in named:
                    nmv = [nm, nm.lower(), nm.upper()][rng.randrange(3)]
                    named_fields.append(nmv + '=' + v)
                opt_i += 1
            argi += 1
    if paren_nodes and len(nodes_idx) >= 2:
        fields[nodes_idx[0]] = '(' + fields[nodes_idx[0]]
        fields[nodes_idx[-1]] = fields[nodes_idx[-1]] + ')'
    line = sep.join(fields + named_fields)
    if opts != '' or optsep != ';':
        line += optsep + opts
    return line


def gen_enum(rules, rng, tier):
    """every rule x every (positional prefix, named subset) of its optional arguments x rotating shapes,
    plus every rule x name shape x value shape with all arguments positional"""
    cases = []
    reps = 2 if tier == 'quick' else 14
    rot = 0
    bytype = {}
    for r in rules:
        bytype.setdefault(r[1], []).append(r)
    for ri, rule in enumerate(rules):
        cls, ty, ps, pos = rule
        optl = [p for p in ps if p[1] in ('name', 'value') and p[2]]
        nopt = len(optl)
        nshapes = list(NAME_SHAPES) + (['bare'] if ty in ('A', 'W', 'O', 'P') else [])
        variants = []
        for j in range(nopt + 1):
            for sub in subsets(list(range(j, nopt))):
                variants.append((j, sub))
        for (j, sub) in variants:
            for rep in range(reps):
                rot += 1
                shapes = [SHAPES[(rot + i * 5 + rep) % len(SHAPES)] for i in range(6)]
                line = build_line(rule, rng, nshapes[rot % len(nshapes)], NODE_SHAPES[(rot // 2) % len(NODE_SHAPES)], shapes, j, sub,
                                  kwcase=rot // 3, sep=SEPS[rot % len(SEPS)], opts=OPTS[(rot // 2) % len(OPTS)],
                                  paren_nodes=(rot % 11 == 0), optsep=[';', '; ', ' ; '][rot % 3])
                # a named argument addresses the FIRST parameter of that name: with repeated names (RV) such a line is
                # not a valid instance of the rule, so the grammar-level oracle does not apply to it
                anames = [p[0].lower() for p in ps if p[1] in ('name', 'value')]
                spec = all(anames.count(optl[k][0].lower()) == 1 for k in sub)
                cases.append({'lines': [line], 'tag': 'enum', 'rule': cls, 'variant': [j, sub], 'spec': spec})
        # all positional: name shape x value shape
        for ns in nshapes:
            for sh in SHAPES:
                rot += 1
                line = build_line(rule, rng, ns, NODE_SHAPES[rot % len(NODE_SHAPES)], [sh], nopt, [],
                                  opts=OPTS[rot % len(OPTS)])
                cases.append({'lines': [line], 'tag': 'shape', 'rule': cls, 'variant': [ns, sh]})
        # the first argument spelled as the component's own name (default elision)
        if any(p[1] in ('name', 'value') for p in ps):
            nopt1 = 1 if (optl and [p for p in ps if p[1] in ('name', 'value')][0][2]) else 0
            line = build_line(rule, rng, 'plain', 'num', ['num'], nopt1, [], first_val=ty + '1')
            cases.append({'lines': [line], 'tag': 'ownname', 'rule': cls, 'variant': ['ownname']})
        # keyword directly after the name (U*, S*, SP*): always with options, in every spelling of the keyword
        if pos == 0:
            for kc in range(3):
                for ob in ('right', 'l={a, b}, size=2', ''):
                    rot += 1
                    line = build_line(rule, rng, ['plain', 'under', 'ns'][kc], ['pin', 'num', 'under'][rot % 3], ['num'], nopt, [],
                                      kwcase=kc, opts=ob, optsep=[';', '; ', ' ; '][rot % 3])
                    cases.append({'lines': [line], 'tag': 'kw0', 'rule': cls, 'variant': ['kw0', kc, ob]})
        # the `def` drawing attribute (a list-valued option)
        if ty in ('R', 'W', 'U'):
            line = build_line(rule, rng, 'plain', 'num', ['num'], nopt, [], opts=OPTS_DEF)
            cases.append({'lines': [line], 'tag': 'optsdef', 'rule': cls, 'variant': ['optsdef']})
        # a value equal to the keyword of a sibling rule at the keyword's position
        if pos is None:
            sib = [s for s in bytype[ty] if s[3] is not None]
            argpos = [m for m, p in enumerate(ps) if p[1] in ('name', 'value')]
            for s in sib:
                if argpos and argpos[0] == s[3] and ps[argpos[0]][1] == 'value':
                    kw = s[2][s[3]][0]
                    nopt1 = 1 if ps[argpos[0]][2] else 0
                    line = build_line(rule, rng, 'plain', 'num', ['num'], nopt1, [], first_val='{' + kw + '}')
                    cases.append({'lines': [line], 'tag': 'kwvalue', 'rule': cls, 'variant': ['kwvalue', kw]})
        # first rule of the type has a keyword: line without / with an unknown keyword
        if pos is not None and bytype[ty][0] is rule:
            for bogus in ('zz9', None):
                cls_, ty_, ps_, pos_ = rule
                ps2 = [p for p in ps_ if p[1] != 'keyword']
                fields = [ty + '1'] + ([bogus] if bogus else [])
                k = 1
                for p in ps2:
                    if p[1] in ('node', 'pin'):
                        fields.append('.q%d' % k if p[1] == 'pin' else str(k))
                        k += 1
                cases.append({'lines': [' '.join(fields)], 'tag': 'boguskw', 'rule': cls, 'variant': ['boguskw', bogus]})
    return cases


DIRECTIVES = ['# a comment', '% another', '* spice comment', '; right=2', ';; draw_nodes=connections', '.foo bar', '',
              ';right, l={a,b}', '   ']


def gen_netlists(rules, rng, n):
    """multi-line netlists: anonymous names, directives, `?` names.  Component names are unique inside one netlist:
    replacing a same-named component goes through Netlist._cpt_add / Node.remove (node bookkeeping, property C16), which is
    neither the reader nor the writer and can raise on its own (e.g. when only an annotation is left on a node)"""
    simple = [r for r in rules if r[1] in ('R', 'C', 'L', 'V', 'I', 'W', 'O', 'P', 'A', 'E', 'G', 'TF', 'K', 'SW', 'U', 'D', 'Q', 'M')]
    cases = []
    for _ in range(n):
        lines = []
        uniq = 0
        for _ in range(rng.randint(2, 7)):
            t = rng.random()
            if t < 0.2:
                lines.append(rng.choice(DIRECTIVES))
                continue
            rule = rng.choice(simple)
            ty = rule[1]
            ns = rng.choice(['plain', 'plain', 'anon', 'under'] + (['bare', 'bare', 'bare'] if ty in ('A', 'W', 'O', 'P') else []))
            optl = [p for p in rule[2] if p[1] in ('name', 'value') and p[2]]
            j = rng.randint(0, len(optl))
            line = build_line(rule, rng, ns, rng.choice(['num', 'num', 'under']), [rng.choice(SHAPES) for _ in range(3)], j, [],
                              opts=rng.choice(OPTS[:4]))
            if ns in ('plain', 'under'):
                uniq += 1
                old = mk_name(ty, ns)
                line = ty + ('x_' if ns == 'under' else '') + str(uniq) + line[len(old):]
            if rng.random() < 0.15:
                line = rng.choice(['...', '... ', '  ']) + line
            lines.append(line)
        if rng.random() < 0.3:
            # explicit use of a generated name, to exercise the namer's search; first, so that it never replaces a component
            lines.insert(0, rng.choice(['Wanon1 7 8', 'Ranon1 7 8', 'Wanon2 8 9', 'XXanon1 1 2', 'Panon1 1 2', 'Ranon2 7 8', 'Oanon1 7 8']))
        cases.append({'lines': lines, 'tag': 'netlist'})
    return cases


BASE_CIRCUITS = [
    ['V1 1 0 step 5; down', 'R1 1 2 {2*a}; right', 'C1 2 3 3 4; down', 'L1 3 0 2 1; down', 'W 0 4; right', 'R2 2 4'],
    ['V1 1 0 ac 3 0 2', 'R1 1 2', 'L1 2 3 L1 0', 'C1 3 0', 'I1 3 0 dc 2'],
    ['V1 1 0 {5*cos(3*t)}', 'R1 1 2 4.7k', 'C1 2 0 10u 0', 'E1 3 0 2 0 10', 'R2 3 0 a'],
    ['I1 1 0 s {1/(s+2)}', 'R1 1 0 2', 'G1 2 0 1 0 3', 'R2 2 0 1', 'H1 3 0 V2 2', 'V2 2 4 dc 0', 'R3 3 0 5; right, l=R_3', 'R4 4 0 1'],
    ['V1 1 0 dc 6; down, v=V_s', 'L1 1 2 2; right', 'L2 3 0 3; down', 'K1 L1 L2 0.5', 'R1 2 0 1', 'R2 3 0 2', 'P1 3 0'],
    ['V1 1 0 noise 3', 'R1 1 2 2', 'R2 2 0 3', 'O 2 0'],
    ['V1 1 0 sin 1 2 3', 'TF1 2 0 1 0 2', 'R1 2 0 5', 'a.R2 2 0 7'],
    ['V1 1 0', 'SW1 1 2 no 1', 'R1 2 0 3', 'C1 2 0 4 0'],
]
DERIVE_OPS = ['s_model', 'ac', 'dc', 'transient', 'noisy', 'noise_model', 'pre_initial_model', 'subs', 'simplify', 'renumber', 'r_model',
              'state_space_model', 'copy', 'kill', 'kill_zero', 'expand', 'ss_model', 'remove_disconnected', 'time', 'laplace_model']
NETWORKS = ['R(1) + C(2)', '(R(1) + L(2, 1)) | C(3, 4)', 'Vstep(2) + R(3)', '(R("R_a") | C("C1")) + Vac(3, 0, 2)', 'I(2) | R(4) | (L(1) + R(2))',
            'Vdc(5) + (R(2) | (C(1, 2) + L(3)))', 'Idc(2) | G(3) | C(4)', '(V(4) + R("4.7k")) | R(3)', 'Y(3) | Z(2)']


def gen_derive(rng, tier):
    cases = []
    for lines in BASE_CIRCUITS:
        for op in DERIVE_OPS:
            d = {'lines': lines, 'op': op}
            if op == 'kill':
                d['arg'] = [lines[0].split(' ')[0]]
            cases.append({'derive': d, 'tag': 'derive'})
    for n in NETWORKS:
        cases.append({'derive': {'network': n, 'op': 'netlist'}, 'tag': 'derive'})
    return cases


def gen_files(rules, rng, n, root):
    """netlist FILES read through Circuit(filename) / netfile_add, with `.include file as name` (nested, repeated,
    with the .sch fallback) and the include error shapes; returns cases and writes the files under root"""
    cases = []
    for k in range(n):
        d = os.path.join(root, 'f%d' % k)
        os.makedirs(d, exist_ok=True)
        body = lambda m: [l for l in gen_netlists(rules, rng, 1)[0]['lines'] if not l.startswith('XXanon')][:m]
        files = {}
        sub2 = os.path.join(d, 'leaf.sch')
        files[sub2] = body(4)
        sub1 = os.path.join(d, 'mid.sch')
        files[sub1] = body(3) + (['.include %s as c%d' % (sub2, k)] if k % 3 == 0 else []) + body(2)
        top = os.path.join(d, 'top.sch')
        kind = k % 8
        inc1 = '.include %s as a' % sub1
        inc2 = '.include   %s\tas  b_2 trailing words' % (sub2[:-4] if k % 2 else sub2)     # .sch fallback on odd k
        if kind == 5:
            inc2 = '.include %s' % sub2                        # no "as name": rejected
        elif kind == 6:
            inc2 = '.include %s as q' % os.path.join(d, 'missing')   # no such file
        elif kind == 7:
            inc2 = '... .include %s as as as z' % sub2        # name is the word after the FIRST " as "
        files[top] = body(2) + [inc1] + body(2) + [inc2] + body(1)
        if kind == 4:
            files[top] = body(5)                               # plain file, no include
        for path, lines in files.items():
            with open(path, 'w') as f:
                f.write('\n'.join(lines) + '\n')
        cases.append({'file': top, 'files': files, 'tag': 'file'})
    return cases


ANON_TYPES = ('W', 'O', 'P', 'A')
HIST_FIXED = [
    [['add', 'W 1 2'], ['add', 'R1 2 3'], ['add', 'W 3 4'], ['remove', 'Wanon1'], ['add', 'W 5 6']],
    [['add', 'a.Wanon1 1 2'], ['add', 'a.W 3 4']],          # the namer compares the relative name with full names
    [['add', 'Wanon1 1 2'], ['add', 'W 3 4']],
    [['add', 'R1 1 2'], ['remove', 'R2']],
    [['add', 'R? 1 2'], ['add', 'R? 2 3'], ['remove', 'Ranon1'], ['add', 'R? 3 4'], ['add', 'Ranon1 4 5']],
    [['add', '# c'], ['add', 'W 1 2'], ['remove', 'XXanon1'], ['add', '; right'], ['add', 'a.O 1 2'], ['add', 'O 1 2'], ['remove', 'a.Oanon1'], ['add', 'b.O 2 3']],
    [['add', 'W 1 2'], ['remove', 'Wanon1'], ['remove', 'Wanon1']],
    [['remove', 'R1']],
    [['add', 'Wanon2 1 2'], ['add', 'W 2 3'], ['add', 'W 3 4'], ['remove', 'Wanon2'], ['add', 'W 4 5'], ['add', 'W 5 6']],
]


def gen_hist(rules, rng, n):
    """histories of Circuit.add / Circuit.remove that make the namer work: anonymous W/O/P/A, `X?` names, directives,
    explicitly written <type>anon<k> names (only before the namer has run, so that no component is ever replaced - replacing
    is node bookkeeping, property C16), removals of generated and of explicit names, re-adding a removed name.  A small
    reimplementation of the naming rule is used ONLY to choose removal targets that exist."""
    simple = [r for r in rules if r[1] in ('R', 'C', 'L', 'V', 'I', 'W', 'O', 'P', 'A', 'E', 'SW', 'D')]
    cases = [{'hist': h, 'tag': 'hist'} for h in HIST_FIXED]
    while len(cases) < n:
        ops = []
        present = []
        handed = []
        uniq = 0
        removed = []

        def fresh(ty):
            m = 1
            while (ty + 'anon%d' % m) in present or (ty + 'anon%d' % m) in handed:
                m += 1
            handed.append(ty + 'anon%d' % m)
            return ty + 'anon%d' % m
        nexp = rng.choice([0, 0, 1, 2])
        for k in rng.sample([1, 2, 3], nexp):
            ty = rng.choice(['W', 'O', 'R', 'XX'])
            if ty == 'XX':
                continue
            nm = '%sanon%d' % (ty, k)
            if nm not in present:
                ops.append(['add', '%s %d %d' % (nm, k, k + 1)])
                present.append(nm)
        for _ in range(rng.randint(2, 10)):
            t = rng.random()
            if t < 0.28 and present:
                nm = rng.choice(present)
                ops.append(['remove', nm])
                present.remove(nm)
                removed.append(nm)
                continue
            if t < 0.33 and removed and removed[-1] not in present and not removed[-1].startswith('XX'):
                nm = removed[-1]          # re-add a removed name explicitly
                ty = re.match(r'(?:a\.)?([A-Z]+?)(?:anon|x_|\d)', nm)
                if ty and ty.group(1) in ('W', 'O', 'R'):
                    ops.append(['add', '%s 8 9' % nm])
                    present.append(nm)
                    continue
            if t < 0.42:
                d = rng.choice([x for x in DIRECTIVES if not x.startswith('.')])
                ops.append(['add', d])
                present.append(fresh('XX'))
                continue
            rule = rng.choice(simple)
            ty = rule[1]
            shape = rng.choice(['anon', 'anon', 'bare', 'bare', 'bare', 'nsbare'] if ty in ANON_TYPES else ['anon', 'anon', 'plain'])
            optl = [p for p in rule[2] if p[1] in ('name', 'value') and p[2]]
            line = build_line(rule, rng, 'bare' if shape == 'nsbare' else shape, rng.choice(['num', 'num', 'under']),
                              [rng.choice(SHAPES) for _ in range(3)], rng.randint(0, len(optl)), [], opts=rng.choice(OPTS[:4]))
            if shape == 'plain':
                uniq += 1
                line = ty + str(uniq) + line[len(mk_name(ty, 'plain')):]
                present.append(ty + str(uniq))
            elif shape == 'nsbare':
                line = 'a.' + line
                present.append('a.' + fresh(ty))
            else:
                present.append(fresh(ty))
            ops.append(['add', line])
        if rng.random() < 0.1:
            ops.append(['remove', rng.choice(['R77', 'Wanon9', 'zz'])])
        cases.append({'hist': ops, 'tag': 'hist'})
    return cases


FUZZ_ALPHABET = 'RRCVW12 {}"=;,.()?#x\tace_'


def gen_malformed(rules, rng, n):
    cases = []
    base = []
    for rule in rules:
        optl = [p for p in rule[2] if p[1] in ('name', 'value') and p[2]]
        base.append((rule, build_line(rule, rng, 'plain', 'num', ['num', 'sym'], len(optl), [])))
    fixed = [',.R1 1 2', '(.C1 1 2 3', ', a..R1 1 2', 'a.b..R1 1 2', '(..R1 1 2', 'R1 1', 'R1', 'R1 1 2 3 4', 'R1 1 2 3 4 5', 'x1 1 2', '1R 1 2', 'q1 1 2', 'R1 1 2 Foo=3', 'C1 1 2 Value=3 4',
             'C1 1 2 Value=3 value=4', 'C1 1 2 IC=3 ic=4', 'R1 1 2 {3', 'R1 1 2 3}', 'R1 1 2 "3', 'R1 1 2 {3"}', 'R1 1 2 {"3}',
             'R1 1 2 {{3}', 'R1 1 2 3; l={a', 'R1 1 2 3; l=a}', '( )', ',', 'R1 1 2 {a;b}', 'V1 1 0 ac 1 2 3 4', 'V1 1 ac',
             'E1 1 2 opamp 3', 'TPA1 1 2 3 4 A 1 2 3', 'TPA1 1 2 3 4 A 1 2 3 4 5 6 7', 'K1 L1', 'SPpp1 pp .a .b',
             'R1 1 2 =3', 'R1 1 2 Value=', 'R1 1 2 Value==3', 'R1 1 2 Value=3=4', 'R1 1 2 a==b', 'C1 1 2 3 IC', 'C1 1 2 3 =',
             'U1 opamp 1', 'D1 1 2 led 3', 'D1 1 led', 'V1 1 0 ac Omega=2 Phase=1', 'V1 1 0 ac Omega=2 1', 'R1 1 2 {3}{4}',
             'R1 1 2 Value={3 4', 'a..R1 1 2', '.R1 1 2', 'R1. 1 2', 'Xyz 1 2', 'é1 1 2' if False else 'w1 1 2']
    for f in fixed:
        cases.append({'lines': [f], 'tag': 'malformed'})
    while len(cases) < n:
        rule, line = rng.choice(base)
        toks = line.split(' ')
        m = rng.randrange(9)
        if m == 0 and len(toks) > 1:
            del toks[rng.randrange(1, len(toks))]
        elif m == 1:
            toks += [rng.choice(['9', 'zz', '{q r}'])] * rng.randint(1, 3)
        elif m == 2:
            toks.append(rng.choice(['Foo=3', 'bar={1 2}', 'Valu=3', 'value=3', 'IC=2', 'Value=4', 'ac=1']))
        elif m == 3:
            toks[rng.randrange(len(toks))] += rng.choice(['{', '"', '}', '{"', '"{'])
        elif m == 4:
            toks[0] = rng.choice(['x', 'q', 'z', '1', '_', 'b', 'n']) + toks[0]
        elif m == 5:
            toks.append(rng.choice(['Value=1', 'value=2']) + ' ' + rng.choice(['3', 'Value=7', 'VALUE=1']))
        elif m == 6:
            toks = toks[:rng.randint(1, len(toks))]
        elif m == 7:
            line2 = ' '.join(toks) + rng.choice(['; l={a', ';l=}', '; {', '; a={b}}', '; a={{b}'])
            cases.append({'lines': [line2], 'tag': 'malformed'})
            continue
        else:
            s = ''.join(rng.choice(FUZZ_ALPHABET) for _ in range(rng.randint(1, 14)))
            cases.append({'lines': [s], 'tag': 'fuzz'})
            continue
        cases.append({'lines': [' '.join(toks)], 'tag': 'malformed'})
    return cases


def gen_vp(suffixes, rng):
    mant = ['1', '42', '4.7', '.5', '3.', '1e3', '2E-2', '-7', '+1.5e+2', '0', '1.2.3', 'e', '', '1e', '--1', 'x', '12a', '.', '1e3.0']
    sufs = [k for k, _ in suffixes] + ['K', 'Meg', 'meg', 'g', 'x', 'MEG', 'kk', '']
    cases = []
    for m in mant:
        for s in sufs:
            cases.append({'vp': m + s, 'tag': 'vp'})
    return cases


def gen_opts(rng, n):
    fixed = list(OPTS) + ['def={x,y}', 'def=a, def=b', 'a=b=c', 'a = b , c= d', 'l={a,b}, {x,y}', 'l={a', 'l=a}', '}{', 'a=}{,b',
                          ',,a,,', 'a=,b=', '=x', ' = ', 'true', 'a=true', 'a=TRUE', 'a= False ', 'l={{a},{b}}', 'a,a=1,a', 'x=1,y=2,x=3']
    cases = [{'opts': f, 'tag': 'opts'} for f in fixed]
    alpha = 'ab=,{} x1'
    while len(cases) < n:
        cases.append({'opts': ''.join(rng.choice(alpha) for _ in range(rng.randint(1, 12))), 'tag': 'opts'})
    return cases


# ---- cases_k.v ----------------------------------------------------------------------
CASES_HEADER = '''(* GENERATED correspondence cases: the model evaluated inside Coq against what the real code returned *)
From Coq Require Import List Ascii ZArith.
From Coq Require String.
Import String.StringSyntax.
From Coq Require Import Uint63.
From LT Require Import ParserStr ParserModel ParserCases ParserNamer.
Require Import Gen.ParserGrammarGen.
Import ListNotations.
Local Open Scope list_scope.
Local Open Scope uint63_scope.
'''


def decode_vp(arg, r, suffixes):
    """the impl's float, decoded to (mantissa text, exponent) by exact float equality"""
    if r['vp'][0] == 'same':
        return '(VSame %s)' % cs(r['vp'][1])
    f = Fraction(r['vp'][1])
    cands = [arg[:-1]]
    if arg.endswith('Meg'):
        cands += [arg[:-3], arg[:-2]]
    for m in cands:
        try:
            fm = float(m)
        except ValueError:
            continue
        if f == 0 and fm == 0:
            # the exponent cannot be read off a zero: expect the table's own entry
            return '(VScaled %s (%d)%%Z)' % (cs(m), dict(suffixes).get('M' if arg.endswith('Meg') else {'K': 'k'}.get(arg[-1], arg[-1]), 0))
        for k in range(-30, 31):
            if Fraction(fm * float('1e%d' % k)) == f:
                return '(VScaled %s (%d)%%Z)' % (cs(m), k)
    return '(VSame %s)' % cs('?undecodable float?')


def case_term(i, c, r, suffixes):
    if 'lines' in c:
        L = clist(cs(l) for l in c['lines'])
        if 'error' in r:
            return '(%d%%N, obs_err G %s %d%%nat %s)' % (i, L, r['at'], ERR[r['error']])
        return '(%d%%N, obs_ok G %s %s %s %s)' % (i, L, clist(c_cpt(e) for e in r['elts']), clist(cs(p) for p in r['printed']), cs(r['str']))
    if 'hist' in c:
        H = clist('(%s %s)' % ('HAdd' if op == 'add' else 'HRemove', cs(x)) for op, x in c['hist'])
        if 'error' in r:
            e = 'HUnknownName' if r['error'] == 'unknown_name' else '(HE %s)' % ERR[r['error']]
            return '(%d%%N, obs_hist_err G %s %d%%nat %s)' % (i, H, r['at'], e)
        return '(%d%%N, obs_hist G %s %s %s %s %s)' % (i, H, clist(c_cpt(e) for e in r['elts']), clist(cs(p) for p in r['printed']),
                                                      cs(r['str']), clist(cs(x) for x in r['gen']))
    if 'file' in c:
        FS = clist('(%s, %s)' % (cs(pth), clist(cs(l) for l in ls)) for pth, ls in c['files'].items())
        if 'error' in r:
            return '(%d%%N, obs_file_err G %s %s %s)' % (i, FS, cs(c['file']), ERR[r['error']])
        return '(%d%%N, obs_file G %s %s %s %s %s)' % (i, FS, cs(c['file']), clist(c_cpt(e) for e in r['elts']), clist(cs(p) for p in r['printed']), cs(r['str']))
    if 'vp' in c:
        return '(%d%%N, vres_eqb (value_parser meg_cut k_cut suffix_table %s) %s)' % (i, cs(c['vp']), decode_vp(c['vp'], r, suffixes))
    if 'opts' in c:
        if 'error' in r:
            return '(%d%%N, obs_opts %s (Err %s))' % (i, cs(c['opts']), ERR[r['error']])
        return '(%d%%N, obs_opts %s (Ok (%s, %s)))' % (i, cs(c['opts']), c_opts(r['opts']), cs(r['fmt']))
    raise ValueError(c)


def cases_v(idxs, cases, results, suffixes):
    items = [case_term(i, cases[i], results[i], suffixes) for i in idxs]
    return CASES_HEADER + 'Definition cases : list (N * bool) := [\n' + ';\n'.join(items) + '\n].\nEval vm_compute in (failingN cases).\n'


def parse_failing(out):
    m = re.search(r'=\s*\[(.*?)\]\s*:\s*list N', out, re.S)
    if not m:
        return None
    body = m.group(1).strip()
    return [int(x.replace('%N', '').strip()) for x in body.split(';')] if body else []


def comparable(c, r):
    """can this observation be put to the model?  constructor failures (sympy rejecting a value, attribute clashes) are
    outside the parser/printer model"""
    if 'error' in r:
        return r['error'] in ERR or (r['error'] == 'unknown_name' and 'hist' in c)
    txt = json.dumps(r)
    return ascii_ok(txt) and '"?' not in txt


# ---- round-trip oracle on the real code ---------------------------------------------
def canon_name(e):
    cls, name = e[0], e[1]
    rel = name.split('.')[-1]
    if cls == 'XX':
        return 'XX'
    if rel[:1] in ('A', 'O', 'W', 'P') and rel[1:].startswith('anon'):
        return name[:len(name) - len(rel)] + rel[0]
    return name


def same_elt(a, b):
    """structural equality of two observed components; a None argument that is not last may come back as '0'
    (the printer writes 0 for it; DESIGN C06 norm)"""
    if a[0] != b[0] or canon_name(a) != canon_name(b) or a[2] != b[2] or a[4][1] != b[4][1] or a[5] != b[5]:
        return False
    if a[0] == 'XX':
        return a[6] == b[6]
    if len(a[3]) != len(b[3]):
        return False
    n = len(a[3])
    renamed = False
    for i, (x, y) in enumerate(zip(a[3], b[3])):
        if x == y:
            continue
        if x is None and y == '0' and i < n - 1:
            renamed = True
            continue
        return False
    if renamed and len(a) > 7 and len(b) > 7 and a[7] != b[7]:
        return False     # the constructor does not treat the absent argument like 0
    return True


def live(elts):
    return [e for e in elts if not (e[0] == 'XX' and e[6].strip() == '')]


def oracle_verdict(r):
    """None = property holds on this input; else a short description"""
    if 'error0' in r:
        return None   # not accepted: nothing to round-trip
    if 'error1' in r:
        return 'printed netlist is rejected: ' + r['error1'].get('msg', '')[:80]
    c0, c1 = live(r['c0']), live(r['c1'])
    if len(c0) != len(c1) or not all(same_elt(a, b) for a, b in zip(c0, c1)):
        return 'reparsed circuit differs'
    if 'error2' in r:
        return 'second printed netlist is rejected'
    if r['s2'] != r['s1'] or r['s3'] != r['s2']:
        return 'printing is not idempotent after the first round trip'
    c2 = live(r['c2'])
    if len(c2) != len(c1) or not all(same_elt(a, b) for a, b in zip(c1, c2)):
        return 'second reparse differs'
    return None


def hist_verdict(ops, r):
    """the naming contract on the real code alone: an anonymous add (W/O/P/A without id, `X?`, a directive; no namespace)
    appends exactly one element whose name was never an element name or a generated name before in this history; any
    other add appends or keeps the key list; a removal deletes exactly the named key.  None = holds."""
    keys = r.get('keys')
    if keys is None:
        return None
    ever = set()
    prev = []
    for (op, x), cur in zip(ops, keys):
        if op == 'remove':
            if cur != [k for k in prev if k != x] or x not in prev:
                return ('Netlist.remove:wrong-elements', 'remove(%s) left %s from %s' % (x, cur, prev))
        else:
            net = x.strip()
            if net.startswith('...'):
                net = net[3:].strip()
            first = re.split(r'[ \t(),;]+', net)[0] if net else ''
            directive = net == '' or net[0] in '#%*;.'
            anon = directive or first in ANON_TYPES or first.endswith('?')
            if anon and '.' not in first:
                if len(cur) != len(prev) + 1 or cur[:-1] != prev:
                    return ('ComponentNamer.name:anonymous-add-replaces-component', 'add(%r) changed the elements %s to %s' % (x, prev, cur))
                if cur[-1] in ever:
                    return ('ComponentNamer.name:generated-name-reused', 'add(%r) was named %s, a name generated before in this history' % (x, cur[-1]))
                ever.add(cur[-1])
            elif anon and len(cur) == len(prev) + 1:
                ever.add(cur[-1].split('.')[-1])
            elif not (cur == prev or cur[:-1] == prev):
                return ('Netlist._cpt_add:wrong-elements', 'add(%r) changed the elements %s to %s' % (x, prev, cur))
        prev = cur
    return None


def fingerprint(c, r, rules):
    """stable key of a round-trip failure: the mechanism when it is one of the recognised shapes, else the
    component class and the stage"""
    byclass = {x[0]: x for x in rules}
    bytype = {}
    for x in rules:
        bytype.setdefault(x[1], []).append(x)
    c0 = live(r.get('c0', []))
    c1 = live(r.get('c1', []))
    for e, e1 in zip(c0, c1):
        # ".C" (empty namespace): the reader keeps the dot, the writer drops it
        if e[1].startswith('.') and '.' not in e[1][1:] and e1[1] == e[1][1:]:
            return 'Cpt._netmake1:leading-dot-name-loses-dot'
    for e in c0:
        if any(k == 'def' for k, _ in e[5]) and 'def=[' in str(r.get('s1', '')):
            return 'Opts.format:def-list-printed-as-python-repr'
    for e in c0:
        rule = byclass.get(e[0])
        if rule is None:
            continue
        cls, ty, ps, pos = rule
        rel = e[1].split('.')[-1]
        argps = [(m, p) for m, p in enumerate(ps) if p[1] in ('name', 'value')]
        printed = [a for a in e[3] if a is not None]
        if pos is None and argps and printed:
            kws = [s[2][s[3]][0].lower() for s in bytype[ty] if s[3] == argps[0][0]]
            if e[3][0] is not None and e[3][0].lower() in kws:
                return 'Cpt._netmake1:value-equals-sibling-keyword'
        if pos is not None and e[4][1] == '':
            # the first rule of the type was taken by default.  Was a VALID keyword of the type written in the input?
            toks = [t for t in re.split(r'[ \t(),]+', e[6].split(';', 1)[0].strip()) if t != '']
            fields = toks[1:]
            valid = [s2 for s2 in bytype[ty] if s2[3] is not None and len(fields) > s2[3]
                     and fields[s2[3]].lower() == s2[2][s2[3]][0].lower()]
            if valid:
                return 'Parser.parse:valid-keyword-at-position-%d-not-recognised:%s' % (valid[0][3], ty)
            if any(p[1] in ('node', 'pin') for p in ps):
                return 'Cpt._netmake1:missing-keyword-of-first-rule'
        if argps and e[3] and e[3][0] == rel and argps[0][1][3] != 'name':
            fm = [a for i, a in enumerate(e[3]) if not (a is None and i == len(e[3]) - 1)]
            if len(fm) == 1:
                return 'Cpt._netmake1:single-arg-equal-to-name-elided'
    cls = c0[0][0] if c0 else '?'
    stage = 'reject' if 'error1' in r else 'differ'
    return 'roundtrip:%s:%s' % (cls, stage)


# ---- generated theorem file --------------------------------------------------------------
def grammar_obligations():
    p = os.path.join(core.VERIF, 'coq', 'props', 'C06_grammar.v.tpl')
    return open(p).read()


# ---- main ----------------------------------------------------------------------------------
def run(tier='quick', replay=None):
    res = core.Result(PID, tier)
    rng = random.Random(core.seed() * 104729 + 6)
    core.ensure_theory(['ParserStr', 'ParserModel', 'ParserThm', 'ParserRoundTrip', 'ParserValue', 'ParserOpts', 'ParserCases', 'ParserNamespace', 'ParserNamer'])
    w = core.Work(PID)
    violations = []
    try:
        res.trusted = [
            'Coq 8.16.1 kernel + vm_compute (no native_compute)',
            'translator tools/tr_grammar.py (sha256 %s): copies four string constants and the suffix dict' % core.sha256_file(os.path.join(core.VERIF, 'tools', 'tr_grammar.py'))[:16],
            'hand model coq/theory/ParserModel.v (validated against the real code by the in-Coq correspondence evaluation of this run)',
            'outside the model: component constructors (sympy parsing of argument values), .include files, non-ASCII text',
        ]
        res.assumptions = ['parse_print: component well-formed (wf_cpt: printable fields, no value equal to a sibling keyword, '
                           'no elided non-default value, keyword of the first rule present) - each excluded shape is a listed finding',
                           'a None argument that is not last is printed as 0; the constructors treat None and 0 alike there (read from oneport.py/twoport.py, not proved)']
        phase = {}
        tph = time.time()
        # 1. translate
        g = None
        try:
            g = T.Grammar(core.REPO)
        except T.Untranslatable as e:
            res.failed_obl.append(('translate', 'lcapy/grammar.py', str(e)))
            res.obligations += 1
        except Exception as e:     # fail closed on anything else, too
            res.failed_obl.append(('translate', 'lcapy/grammar.py', 'translator crashed: %r' % e))
            res.obligations += 1
        texts = {}
        gen_ok = False
        if g is not None:
            # the namer / remove source, compared statement for statement with what the model mirrors
            res.obligations += 1
            if g.namer_issues:
                res.failed_obl.append(('namer_source_guard', 'lcapy/componentnamer.py', '; '.join(g.namer_issues)))
            else:
                res.discharged += 1
            texts['ParserGrammarGen.v'] = g.coq()
            w.write('ParserGrammarGen.v', texts['ParserGrammarGen.v'])
            ok, out, secs = core.coqc(w.dir, 'ParserGrammarGen.v')
            if not ok:
                res.failed_obl.append(('ParserGrammarGen', 'ParserGrammarGen.v', out[-800:]))
                res.obligations += 1
            else:
                gen_ok = True
        # 2. prove
        if gen_ok:
            files = []
            tpl = os.path.join(core.VERIF, 'coq', 'props', 'C06_grammar.v.tpl')
            if os.path.exists(tpl):
                texts['C06_grammar.v'] = open(tpl).read()
                w.write('C06_grammar.v', texts['C06_grammar.v'])
                files.append('C06_grammar.v')
            tplr = os.path.join(core.VERIF, 'coq', 'props', 'C06_refuted.v.tpl')
            if os.path.exists(tplr):
                texts['C06_refuted.v'] = open(tplr).read()
                w.write('C06_refuted.v', texts['C06_refuted.v'])
                files.append('C06_refuted.v')
            tplm = os.path.join(core.VERIF, 'coq', 'props', 'C06_meg.v.tpl')
            if os.path.exists(tplm):
                texts['C06_meg.v'] = open(tplm).read()
                w.write('C06_meg.v', texts['C06_meg.v'])
                files.append('C06_meg.v')
            tpln = os.path.join(core.VERIF, 'coq', 'props', 'C06_namer.v.tpl')
            if os.path.exists(tpln):
                texts['C06_namer.v'] = open(tpln).read()
                w.write('C06_namer.v', texts['C06_namer.v'])
                files.append('C06_namer.v')
            pp = os.path.join(core.VERIF, 'coq', 'props', 'C06.v')
            if os.path.exists(pp):
                texts['C06.v'] = open(pp).read()
                w.write('C06.v', texts['C06.v'])
                files.append('C06.v')
            th = [os.path.join(core.COQ_THEORY, f) for f in sorted(os.listdir(core.COQ_THEORY)) if f.startswith('Parser') and f.endswith('.v')]
            bad = core.gate_text('generated', '\n'.join(texts.values())) + core.gate_files(th)
            if bad:
                res.failed_obl.append(('gate', 'generated', '; '.join(bad)))
                res.obligations += 1
            results = core.coqc_many(w.dir, files, timeout=600)
            res.coq_results(w.dir, results, {f: texts[f] for f in files})
            res.extra['coq_seconds'] = {f: round(r[2], 1) for f, r in results.items()}

        phase['translate+prove'] = round(time.time() - tph, 1); tph = time.time()
        # 3. correspondence
        cases = []
        rules = []
        if g is not None:
            try:
                rules = T.py_rules(g)
            except Exception as e:
                res.failed_obl.append(('grammar_text', 'lcapy/grammar.py', 'grammar text does not have the rule/param line format: %r' % e))
                res.obligations += 1
        if replay:
            rc = dict(replay.get('case') or {})
            if 'roundtrip' in rc:
                rc['lines'] = rc.pop('roundtrip')
            if 'roundtrip_file' in rc:
                rc['file'] = rc.pop('roundtrip_file')
            for pth, ls in (rc.get('files') or {}).items():
                if os.path.abspath(pth).startswith(os.path.join(core.VERIF, '.work') + os.sep):
                    os.makedirs(os.path.dirname(pth), exist_ok=True)
                    with open(pth, 'w') as f:
                        f.write('\n'.join(ls) + '\n')
            rc.setdefault('tag', 'replay')
            if 'roundtrip_hist' in rc:
                rc['hist'] = rc.pop('roundtrip_hist')
            cases = [rc] if rc.keys() & {'lines', 'vp', 'opts', 'file', 'hist'} else []
        elif rules:
            cases += gen_enum(rules, rng, tier)
            cases += gen_netlists(rules, rng, 150 if tier == 'quick' else 3000)
            cases += gen_malformed(rules, rng, 600 if tier == 'quick' else 12000)
            cases += gen_vp(g.suffixes, rng)
            os.makedirs(w.path('files'), exist_ok=True)
            cases += gen_files(rules, rng, 40 if tier == 'quick' else 300, w.path('files'))
            # netlists produced by Lcapy's own rewrites and by network-to-netlist conversion
            dcs = gen_derive(rng, tier)
            nder = 0
            for dc, dr in zip(dcs, core.run_impl('impl_parser.py', dcs)):
                if 'derived' in dr and ascii_ok(dr['derived']):
                    nder += 1
                    cases.append({'lines': dr['derived'].split('\n'), 'tag': 'rewrite', 'rule': 'rewrite:' + dc['derive']['op'],
                                  'from': dc['derive']})
                else:
                    res.count('derive_' + str(dr.get('error', 'nonascii')))
            res.extra['derived_netlists'] = nder
            cases += gen_opts(rng, 200 if tier == 'quick' else 4000)
            cases += gen_hist(rules, rng, 150 if tier == 'quick' else 3000)
        results = core.run_impl('impl_parser.py', cases) if cases else []
        res.programs = len(set(c.get('rule', c['tag']) for c in cases))
        idxs = []
        for i, (c, r) in enumerate(zip(cases, results)):
            tag = c.get('tag', '?')
            if str(r.get('error', '')).startswith('worker'):
                res.failed_obl.append(('impl_worker', 'tools/impl_parser.py', r.get('msg', r['error'])))
                res.obligations += 1
                break
            if not comparable(c, r):
                res.count('outside_model_' + tag)
                if tag in ('enum', 'shape', 'netlist', 'kw0', 'file', 'hist'):
                    # the enumeration is built from values every constructor accepts
                    res.disagreements.append({'case': c, 'lcapy': r, 'why': 'the real code raised outside the parser on an enumerated line'})
                continue
            idxs.append(i)
            res.add_case(json.dumps(c, sort_keys=True), True, {'case': c, 'lcapy': r} if i % 1777 == 0 else None)
            res.count('tag_' + tag)
            res.count('impl_' + (r['error'] if 'error' in r else 'accepted'))
        phase['impl'] = round(time.time() - tph, 1); tph = time.time()
        corr_fail = []
        if gen_ok and idxs:
            shards = [idxs[i:i + 350] for i in range(0, len(idxs), 350)]
            fn = []
            for si, sh in enumerate(shards):
                w.write('cases_%d.v' % si, cases_v(sh, cases, results, g.suffixes))
                fn.append('cases_%d.v' % si)
            cr = core.coqc_many(w.dir, fn, timeout=900)
            for f, (ok, out, secs) in cr.items():
                fl = parse_failing(out) if ok else None
                if fl is None:
                    res.failed_obl.append(('correspondence_eval', f, out[-600:]))
                    res.obligations += 1
                else:
                    corr_fail += fl
            res.extra['traces_validated_against_impl'] = len(idxs)
        for i in corr_fail:
            res.disagreements.append({'case': cases[i], 'lcapy': results[i], 'why': 'model and real code differ'})
        # which accepted one-line inputs lie inside the hypotheses of parse_print (wf_cpt, opts_rt)?
        outside = set()
        dom_idx = [i for i in idxs if 'lines' in cases[i] and len(cases[i]['lines']) == 1 and 'error' not in results[i]
                   and results[i]['elts'] and results[i]['elts'][0][0] != 'XX']
        if gen_ok and dom_idx:
            fn = []
            for si in range(0, len(dom_idx), 700):
                sh = dom_idx[si:si + 700]
                body = ';\n'.join('(%d%%N, %s)' % (i, cs(cases[i]['lines'][0])) for i in sh)
                w.write('domain_%d.v' % si, CASES_HEADER + 'From LT Require Import ParserThm ParserRoundTrip.\nEval vm_compute in (outside G [\n' + body + '\n]).\n')
                fn.append('domain_%d.v' % si)
            for f, (ok, out, secs) in core.coqc_many(w.dir, fn, timeout=900).items():
                fl = parse_failing(out) if ok else None
                if fl is None:
                    res.failed_obl.append(('domain_eval', f, out[-600:]))
                    res.obligations += 1
                else:
                    outside.update(fl)
            by_tag = {}
            for i in dom_idx:
                if i in outside:
                    by_tag[cases[i]['tag']] = by_tag.get(cases[i]['tag'], 0) + 1
            res.extra['parse_print_domain'] = {'accepted_one_line_inputs': len(dom_idx), 'inside_hypotheses': len(dom_idx) - len(outside),
                                               'outside_by_tag': by_tag}

        phase['coq_cases'] = round(time.time() - tph, 1); tph = time.time()
        # 4. round-trip oracle (real code only)
        oidx = [i for i, c in enumerate(cases) if 'lines' in c or 'file' in c or 'hist' in c]
        ocases = [({'roundtrip_file': cases[i]['file'], 'files': cases[i]['files'], 'tag': 'file'} if 'file' in cases[i] else
                   {'roundtrip_hist': cases[i]['hist'], 'tag': 'hist'} if 'hist' in cases[i] else
                   {'roundtrip': cases[i]['lines'], 'tag': cases[i].get('tag'), 'rule': cases[i].get('rule'), 'spec': cases[i].get('spec', True)})
                  for i in oidx]
        oresults = core.run_impl('impl_parser.py', ocases) if ocases else []
        inside = set(dom_idx) - outside if gen_ok else set()
        for ci, c, r in zip(oidx, ocases, oresults):
            if str(r.get('error', '')).startswith('worker'):
                res.failed_obl.append(('impl_worker', 'tools/impl_parser.py', r.get('msg', r['error'])))
                res.obligations += 1
                break
            v = oracle_verdict(r)
            if 'roundtrip_hist' in c:
                hv = hist_verdict(c['roundtrip_hist'], r)
                if hv is not None:
                    res.count('oracle_fail')
                    res.counterexamples.append({'case': c, 'lcapy': r, 'why': hv[1], 'key': hv[0]})
                    continue
            built_from = c.get('rule') if (c.get('tag') in RULE_TAGS and c.get('spec', True)) else None
            if built_from is not None:
                # specification = the grammar line itself ("Class: Typename ... keyword ...; comment"): text built from that
                # line with well-formed fields must be accepted and must become an instance of that class
                ty = {x[0]: x[1] for x in rules}.get(built_from, '?')
                if 'error0' in r:
                    res.count('oracle_fail')
                    res.counterexamples.append({'case': c, 'lcapy': r, 'why': 'a line written after grammar rule %s is rejected: %s' % (built_from, r['error0'].get('msg', '')[:80]),
                                                'key': 'Parser.parse:valid-line-rejected:%s' % ty})
                    continue
                got = live(r['c0'])[0][0] if live(r['c0']) else None
                if got != built_from:
                    res.count('oracle_fail')
                    res.counterexamples.append({'case': c, 'lcapy': r, 'why': 'a line written after grammar rule %s is read as class %s' % (built_from, got),
                                                'key': 'Parser.parse:wrong-class:%s' % ty})
                    continue
            if 'error0' in r:
                res.count('oracle_not_accepted')
            elif v is None:
                res.count('oracle_ok')
            else:
                res.count('oracle_fail')
                res.counterexamples.append({'case': c, 'lcapy': r, 'why': v, 'key': fingerprint(c, r, rules)})
                if ci in inside:
                    # parse_print covers this input, yet the real code fails on it: model and code must differ
                    res.disagreements.append({'case': cases[ci], 'lcapy': r, 'why': 'the real round trip fails on an input inside the hypotheses of parse_print'})
        if replay:
            for c, r in zip(cases, results):
                print('INPUT          :', json.dumps({k: v for k, v in c.items() if k in ('lines', 'vp', 'opts', 'hist')}))
                print('IMPLEMENTATION :', json.dumps(r)[:1500])
                print('MODEL (Coq)    :', 'differs from the implementation' if res.disagreements else
                      ('agrees with the implementation' if idxs else 'not comparable (outside the model)'))
            for c, r in zip(ocases, oresults):
                hv = hist_verdict(c['roundtrip_hist'], r) if 'roundtrip_hist' in c else None
                print('ORACLE         :', (hv[1] if hv else None) or oracle_verdict(r) or 'round trip holds (or input not accepted)', '|', json.dumps(r)[:1500])
        # engineering suffixes: every entry of the table and the documented aliases must scale
        if g is not None and (not replay or (cases and 'vp' in cases[0])):
            # the specification here is the SI table itself, not the table read from the source
            want = {'f': -15, 'p': -12, 'n': -9, 'u': -6, 'm': -3, 'k': 3, 'M': 6, 'G': 9, 'T': 12, 'Meg': 6, 'K': 3}
            vcases = [{'vp': '3' + s} for s in want]
            for c, r in zip(vcases, core.run_impl('impl_parser.py', vcases, nproc=1)):
                suf = c['vp'][1:]
                okv = r.get('vp', [''])[0] == 'float' and Fraction(r['vp'][1]) == Fraction(3.0 * float('1e%d' % want[suf]))
                if not okv:
                    res.counterexamples.append({'case': c, 'lcapy': r, 'why': 'value_parser does not scale the suffix',
                                                'key': 'value_parser:%s' % suf})

        phase['oracle'] = round(time.time() - tph, 1)
        res.extra['phase_seconds'] = phase
        res.rule = ('cases: every grammar rule x every (positional prefix, named subset) of its optional arguments x rotating '
                    'name/node/value/option/separator shapes; every rule x name shape x value shape; own-name, sibling-keyword and '
                    'missing-keyword probes; multi-line netlists with anonymous names/directives/overrides; histories of add/remove with '
                    'anonymous, X? and explicit <type>anon<k> names; a malformed + fuzz stream; '
                    'value_parser and Opts strings.  non-trivial = the real code either accepted the text or raised a parser error '
                    '(constructor errors are outside the model); distinct = distinct input texts')

        # 5. decide
        seen = {}
        for ce in res.counterexamples:
            # keep the shortest failing input of each mechanism
            old = seen.get(ce['key'])
            size = lambda x: len('\n'.join(x['case'].get('roundtrip') or [y[1] for y in x['case'].get('roundtrip_hist', [])] or [x['case'].get('vp', '')]))
            if old is None or size(ce) < size(old):
                seen[ce['key']] = ce
        known_keys = set(k['key'] for k in core.load_known() if k.get('property') == PID and k.get('status') == 'open')
        fresh = [k for k in seen if k not in known_keys]
        for k, ce in seen.items():
            if k in fresh[6:]:
                continue     # one report per mechanism is enough; the count is in the evidence
            violations.append({'key': k, 'what': 'real code: %s' % ce['why'], 'case': ce['case'],
                               'lcapy': ce['lcapy'], 'found_input': True, 'how': './check C06 --replay <this file>'})
        for name, f, msg in res.failed_obl:
            if name == 'suffix_Meg_G' and 'value_parser:Meg' in seen:
                continue     # the refuted theorem and the concrete input value_parser('3Meg') are the same defect
            violations.append({'key': 'obligation:' + name, 'what': 'Coq obligation %s in %s no longer checks' % (name, f),
                               'theorem': name, 'file': f, 'message': msg, 'found_input': False})
        # correspondence differences: when the round-trip oracle fails on the very same input, that concrete
        # input is the report; otherwise the difference itself is reported, once per input family
        failing_inputs = set(json.dumps(ce['case'].get('roundtrip')) for ce in res.counterexamples if ce['case'].get('roundtrip') is not None)
        failing_inputs |= set(json.dumps(ce['case'].get('roundtrip_hist')) for ce in res.counterexamples if 'roundtrip_hist' in ce['case'])
        dk = {}
        for d in res.disagreements:
            c = d['case']
            if (json.dumps(c.get('lines')) in failing_inputs or ('hist' in c and json.dumps(c['hist']) in failing_inputs)) and 'inside the hypotheses' not in d['why']:
                continue
            k = 'correspondence:%s' % c.get('tag')
            dk.setdefault(k, d)
        for k, d in list(dk.items())[:8]:
            violations.append({'key': k, 'what': d['why'], 'case': d['case'], 'lcapy': d['lcapy'], 'found_input': False,
                               'correspondence': 'LT.ParserModel vs lcapy parser/printer', 'n_differences': len(res.disagreements)})
        return core.finish(res, violations)
    finally:
        if not os.environ.get('VERIF_KEEP'):
            w.cleanup()


if __name__ == '__main__':
    sys.exit(run(sys.argv[1] if len(sys.argv) > 1 else 'quick'))
